package c15

// Reference databases as they come, through the real commands.
//
// The statement is quantified over "every reference database".  The other tests
// of the package build the taxonomy from the references, so every record they
// hand to the commands is an ordinary one.  A database assembled from public
// sequences and a taxonomy release of another date is not like that; the
// commands decide, record by record, what the database they work on is:
//
//   - a record whose taxid is unknown to the taxonomy (a taxid deleted since, a
//     typing error, 0, a negative number) is DISCARDED: obitag warns "Taxid N is
//     not described in the taxonomy. Sequence X is discared from the reference
//     database", obirefidx reports "n sequences have no valid taxid and has been
//     discarded" - wherever the record stands in the file;
//   - a record whose taxid is an old identifier listed in merged.dmp is a reference
//     of the taxon the identifier was merged into (Taxonomy.Taxon follows the
//     aliases);
//   - a record without taxid attribute is a reference of the root (BioSequence.Taxid:
//     "If the attribute is not found, the function returns 1 as the default
//     taxonomic ID. The taxid 1 corresponds to the root taxonomic level");
//   - records shorter than a 4-mer (1..3 nt) or than anything the other generators
//     build (4..19 nt), records sharing their identifier, records sharing their
//     sequence under different taxids are references like any other.
//
// The answers - the index obirefidx writes for every record it keeps, the taxon,
// match count, best identity and best match obitag gives to every query - are
// those of the brute force on the database so defined (the kept records with the
// taxon the command documents for each), whatever stands between them in the file.
//
// One case is run three ways:
//   A. obirefidx <file>: exactly the kept records come out, each with the
//      brute-force index of the kept database (judgeIndex);
//   B. obitag -R <file> (nothing indexed: obitag indexes its best references
//      itself) on 2..5 queries;
//   C. obitag -R <the file where every kept record carries the index obirefidx
//      gave it in A, the discarded records still in place>, same queries.

import (
	"bytes"
	"encoding/json"
	"errors"
	"fmt"
	"math"
	"os"
	"path/filepath"
	"sort"
	"strconv"
	"strings"
	"testing"

	"pgregory.net/rapid"

	"verifharness/internal/evid"
	"verifharness/internal/gen"
	"verifharness/internal/ref"
	"verifharness/internal/run"
)

func init() {
	evid.Reg("rawdb", checkRaw)
}

const ruleRaw = "rawdb: a reference file of 2..34 records = a database of the small-case generator (2..25 references, taxonomy of 1..12 nodes, root taxid 1) in which each record is, by a drawn operation, left as it is, given a taxid unknown to the taxonomy (0, -1, 999999999 or a fresh identifier), given an old identifier that merged.dmp maps to its taxon, stripped of its taxid attribute, or given the identifier of an earlier record; 0..4 further records are inserted first, last or anywhere: unknown-taxid records (unrelated, exact copy or 1-2 edits of the first query, relative of a kept reference), references of 1..3 nt and of 4..19 nt, copies of a record under another taxid. At least 2 records are kept. " +
	"The database the commands document they use = the records whose taxid resolves (directly or through merged.dmp) or is absent (absent = taxid 1, the root); the others are discarded. 2..5 queries (the query of the generator; 0..3 edits of a kept reference, preferably one that stands after a discarded record or a 4..19 nt one; ends changed). --max-cpu 1/2/4, --batch-size default/1/3. " +
	"Oracle: (A) obirefidx <file> writes exactly the kept records (identifier, sequence, taxid attribute untouched, matched as a multiset when identifiers repeat), each with the brute-force index of the kept database; (B) obitag -R <file> and (C) obitag -R <file with the indices of A on the kept records, discarded records in place> give every query the brute-force taxid, obitag_match_count, obitag_bestid (tolerance 1e-12) and a best match that is the identifier of a brute-force best reference, all computed on the kept database. (B) is not run when the last record of the file is a discarded one (see Domain decisions). Inconclusive subprocess = case counted, not judged. " +
	"One evaluation = one file. Non-trivial = a discarded record stands in the file before a brute-force best reference of some query whose prefilter bound len(query)-3-4*dmin excludes at least one kept reference, or a best reference of some query is an alias / no-taxid / repeated-identifier / short record. Distinct = hash of (records, taxonomy with aliases, queries, options)."

// ------------------------------------------------------------------ the case

type rawRec struct {
	ID    string
	Seq   string
	Taxid int    // value of the taxid attribute
	NoTax bool   `json:",omitempty"` // the record has no taxid attribute (Taxid is ignored)
	Kind  string // how the generator made the record (label; the oracle reads Taxid / NoTax only)
}

type rawCase struct {
	Tree     ref.Tree // with the merged identifiers (Alias)
	Recs     []rawRec // file order
	Queries  []string
	IdxCPU   int // obirefidx --max-cpu
	IdxBatch int // obirefidx --batch-size (0 = default)
	TagCPU   int // obitag --max-cpu
	TagBatch int
}

// keptDB is the database the commands document they use.
type keptDB struct {
	db      dbCase // Refs/Node/Tree of the kept records, in file order
	filePos []int  // kept position -> file position
	ids     []string
}

func (c *rawCase) validate() error {
	if err := c.Tree.Validate(); err != nil {
		return fmt.Errorf("harness: %v", err)
	}
	if c.Tree.Taxid[0] != 1 {
		return fmt.Errorf("harness: root taxid is %d, not 1", c.Tree.Taxid[0])
	}
	for i, r := range c.Recs {
		if r.ID == "" || strings.ContainsAny(r.ID, " \t\n{}\"") {
			return fmt.Errorf("harness: record %d: id %q empty or unsafe", i, r.ID)
		}
		if len(r.Seq) < 1 || strings.Trim(r.Seq, "acgt") != "" {
			return fmt.Errorf("harness: record %d: sequence %q empty or not over acgt", i, r.Seq)
		}
	}
	for i, q := range c.Queries {
		if len(q) < 4 || strings.Trim(q, "acgt") != "" {
			return fmt.Errorf("harness: query %d: %q shorter than a 4-mer or not over acgt", i, q)
		}
	}
	if len(c.Queries) == 0 {
		return fmt.Errorf("harness: no query")
	}
	return nil
}

// kept applies the documented rule record by record.
func (c *rawCase) kept() keptDB {
	k := keptDB{db: dbCase{Tree: c.Tree}}
	for i, r := range c.Recs {
		node := 0 // no taxid attribute: taxid 1, the root
		if !r.NoTax {
			n, _, ok := c.Tree.Resolve(r.Taxid)
			if !ok {
				continue // discarded
			}
			node = n
		}
		k.db.Refs = append(k.db.Refs, r.Seq)
		k.db.Node = append(k.db.Node, node)
		k.filePos = append(k.filePos, i)
		k.ids = append(k.ids, r.ID)
	}
	return k
}

func (c *rawCase) discarded(i int) bool {
	if c.Recs[i].NoTax {
		return false
	}
	_, _, ok := c.Tree.Resolve(c.Recs[i].Taxid)
	return !ok
}

func (k *keptDB) table(c *rawCase) string {
	var b strings.Builder
	b.WriteString("kept database (r<k> below = k-th kept record):\n")
	for p, fp := range k.filePos {
		r := c.Recs[fp]
		tx := "no taxid attribute -> taxid 1"
		if !r.NoTax {
			tx = fmt.Sprintf("taxid attribute %d", r.Taxid)
		}
		fmt.Fprintf(&b, "   r%-3d = file record %-3d id %-6s %-14s %s -> taxon %d\n", p, fp, r.ID, r.Kind, tx, c.Tree.Taxid[k.db.Node[p]])
	}
	for i, r := range c.Recs {
		if c.discarded(i) {
			fmt.Fprintf(&b, "   discarded: file record %d id %s (taxid %d is neither in nodes.dmp nor in merged.dmp) %s\n", i, r.ID, r.Taxid, r.Seq)
		}
	}
	fmt.Fprintf(&b, "taxonomy parents (by node): %v taxids: %v merged (old id, node): %v\n", c.Tree.Parent, c.Tree.Taxid, c.Tree.Alias)
	return b.String()
}

// rawFasta writes the file; index[i] (may be nil) is the obitag_ref_index given to file record i.
func rawFasta(c *rawCase, index map[int]json.RawMessage) []byte {
	var b bytes.Buffer
	for i, r := range c.Recs {
		var parts []string
		if raw, ok := index[i]; ok {
			parts = append(parts, fmt.Sprintf("\"obitag_ref_index\":%s", raw))
		}
		if !r.NoTax {
			parts = append(parts, fmt.Sprintf("\"taxid\":%d", r.Taxid))
		}
		if len(parts) > 0 {
			fmt.Fprintf(&b, ">%s {%s}\n", r.ID, strings.Join(parts, ","))
		} else {
			fmt.Fprintf(&b, ">%s\n", r.ID)
		}
		for s := r.Seq; len(s) > 0; {
			n := min(60, len(s))
			b.WriteString(s[:n] + "\n")
			s = s[n:]
		}
	}
	return b.Bytes()
}

// ------------------------------------------------------------------ the check

type rawStats struct {
	ranB bool
}

func checkRaw(c rawCase) error {
	_, err := runRaw(&c)
	if errors.Is(err, errInconclusive) {
		return nil
	}
	return err
}

func rawArgs(cpu, batch int) []string { return cliArgs(cpu, batch) }

func runRaw(c *rawCase) (st rawStats, err error) {
	if err := c.validate(); err != nil {
		return st, err
	}
	k := c.kept()
	if len(k.filePos) < 1 {
		return st, fmt.Errorf("harness: no record is kept")
	}
	dir, e := os.MkdirTemp(run.WorkDir(), "raw")
	if e != nil {
		return st, fmt.Errorf("harness: %v", e)
	}
	defer os.RemoveAll(dir)
	write := func(name string, body []byte) error {
		if err := os.WriteFile(filepath.Join(dir, name), body, 0o644); err != nil {
			return fmt.Errorf("harness: %v", err)
		}
		return nil
	}
	if err := os.Mkdir(filepath.Join(dir, "tax"), 0o755); err != nil {
		return st, fmt.Errorf("harness: %v", err)
	}
	nodes, names, merged := c.Tree.NCBIDump(ref.DumpStyle{})
	for n, body := range map[string]string{"nodes.dmp": nodes, "names.dmp": names, "merged.dmp": merged} {
		if err := write(filepath.Join("tax", n), []byte(body)); err != nil {
			return st, err
		}
	}
	input := rawFasta(c, nil)
	if err := write("db.fasta", input); err != nil {
		return st, err
	}
	var qb bytes.Buffer
	for i, q := range c.Queries {
		fmt.Fprintf(&qb, ">q%d\n%s\n", i, q)
	}
	if err := write("queries.fasta", qb.Bytes()); err != nil {
		return st, err
	}
	context := func() string {
		return fmt.Sprintf("%s--- db.fasta\n%s--- tax/merged.dmp\n%s", k.table(c), input, merged)
	}

	// ---- A. obirefidx on the file
	args := append(rawArgs(c.IdxCPU, c.IdxBatch), "db.fasta")
	cmdline := "obirefidx " + strings.Join(args, " ")
	res := run.Cmd(run.Opt{Dir: dir}, "obirefidx", args...)
	if res.Inconclusive() {
		return st, errInconclusive
	}
	if res.Exit != 0 {
		return st, fmt.Errorf("%s: exit status %d\nstderr: %s\n%s", cmdline, res.Exit, tail(res.Stderr), context())
	}
	outRecs, perr := ref.ParseFasta(res.Stdout)
	if perr != nil {
		return st, fmt.Errorf("%s: output not understood: %v\n%s--- output\n%s", cmdline, perr, context(), res.Stdout)
	}
	failA := func(format string, a ...any) error {
		return fmt.Errorf("%s: %s\n%s--- output\n%s", cmdline, fmt.Sprintf(format, a...), context(), res.Stdout)
	}
	if len(outRecs) != len(k.filePos) {
		return st, failA("%d records written; the file holds %d records with a taxid of the taxonomy (or none) and %d to discard", len(outRecs), len(k.filePos), len(c.Recs)-len(k.filePos))
	}
	type parsed struct {
		id, seq string
		annot   map[string]json.RawMessage
	}
	outs := make([]parsed, len(outRecs))
	for i, r := range outRecs {
		outs[i] = parsed{id: r.ID, seq: strings.ToLower(r.Seq), annot: map[string]json.RawMessage{}}
		if js, _, ok := ref.SplitJSONTitle(r.Title); ok {
			if err := json.Unmarshal([]byte(js), &outs[i].annot); err != nil {
				return st, failA("record %s: title %q: %v", r.ID, r.Title, err)
			}
		}
	}
	idxDB := k.db
	idxDB.Query = k.db.Refs[0]
	mA := newModel(&idxDB)
	used := make([]bool, len(outs))
	index := map[int]json.RawMessage{} // file position -> index written by obirefidx
	for p, fp := range k.filePos {
		r := c.Recs[fp]
		wantTax := "absent"
		if !r.NoTax {
			wantTax = strconv.Itoa(r.Taxid)
		}
		found := -1
		var why error
		for o := range outs {
			if used[o] || outs[o].id != r.ID {
				continue
			}
			gotTax := "absent"
			if raw, ok := outs[o].annot["taxid"]; ok {
				gotTax = string(raw)
			}
			if outs[o].seq != r.Seq || gotTax != wantTax {
				if why == nil {
					why = fmt.Errorf("a record %s is written with sequence %s and taxid attribute %s", r.ID, outs[o].seq, gotTax)
				}
				continue
			}
			raw, ok := outs[o].annot["obitag_ref_index"]
			if !ok {
				why = fmt.Errorf("record %s is written without obitag_ref_index", r.ID)
				continue
			}
			idx, perr := parseIndex(raw)
			if perr != nil {
				why = perr
				continue
			}
			if jerr := judgeIndex(&idxDB, mA, p, idx); jerr != nil {
				why = fmt.Errorf("the index written for it is not the index of the kept database:\n%v", jerr)
				continue
			}
			found = o
			break
		}
		if found < 0 {
			if why == nil {
				why = fmt.Errorf("no such record in the output")
			}
			return st, failA("kept record r%d (file record %d, id %s, sequence %s, taxid attribute %s): %v", p, fp, r.ID, r.Seq, wantTax, why)
		}
		used[found] = true
		index[fp] = outs[found].annot["obitag_ref_index"]
	}

	// ---- B. obitag on the file as it is; C. obitag on the file with the indices of A
	indexed := rawFasta(c, index)
	if err := write("db.indexed.fasta", indexed); err != nil {
		return st, err
	}
	models := make([]*model, len(c.Queries))
	dbs := make([]dbCase, len(c.Queries))
	for i, q := range c.Queries {
		dbs[i] = k.db
		dbs[i].Query = q
		models[i] = newModel(&dbs[i])
	}
	lastDiscarded := c.discarded(len(c.Recs) - 1)
	for _, variant := range []string{"db.fasta", "db.indexed.fasta"} {
		if variant == "db.fasta" && lastDiscarded {
			continue // Domain decisions: obitag aborts on such a file when it has to index a reference
		}
		if variant == "db.fasta" {
			st.ranB = true
		}
		args := append(rawArgs(c.TagCPU, c.TagBatch), "-R", variant, "queries.fasta")
		cmdline := "obitag " + strings.Join(args, " ")
		res := run.Cmd(run.Opt{Dir: dir}, "obitag", args...)
		if res.Inconclusive() {
			return st, errInconclusive
		}
		more := func() string {
			if variant == "db.fasta" {
				return context()
			}
			return fmt.Sprintf("%s--- db.indexed.fasta (db.fasta with the obitag_ref_index obirefidx wrote for each kept record)\n%s", context(), indexed)
		}
		if res.Exit != 0 {
			return st, fmt.Errorf("%s: exit status %d\nstderr: %s\n%s", cmdline, res.Exit, tail(res.Stderr), more())
		}
		tagged, _, perr := parseOut(res.Stdout)
		if perr != nil {
			return st, fmt.Errorf("%s: output not understood: %v\n--- output\n%s", cmdline, perr, res.Stdout)
		}
		for i := range c.Queries {
			if err := judgeTagged(c, &k, &dbs[i], models[i], i, tagged); err != nil {
				return st, fmt.Errorf("%s, query q%d: %v\n%s--- obitag output\n%s", cmdline, i, err, more(), res.Stdout)
			}
		}
	}
	return st, nil
}

// judgeTagged compares what obitag wrote for query i with the brute force on the kept database.
func judgeTagged(c *rawCase, k *keptDB, db *dbCase, m *model, i int, tagged map[string]outRec) error {
	wantNode, _ := m.expectedAssignment()
	bestIDs := make([]string, len(m.best))
	for x, b := range m.best {
		bestIDs[x] = fmt.Sprintf("r%d(id %s)", b, k.ids[b])
	}
	fail := func(format string, a ...any) error {
		return fmt.Errorf("%s\nbrute force on the kept database: minimal distance %d reached by %v, best identity %v, expected taxid %d\n%s",
			fmt.Sprintf(format, a...), m.dmin, bestIDs, m.bestIdentity(), c.Tree.Taxid[wantNode], describe(db, m))
	}
	o, ok := tagged[fmt.Sprintf("q%d", i)]
	if !ok {
		return fail("the query is missing from the output")
	}
	taxid, e := strconv.Atoi(string(o.annot["taxid"]))
	if e != nil {
		return fail("taxid annotation is %s", o.annot["taxid"])
	}
	node, _, ok := c.Tree.Resolve(taxid)
	if !ok {
		return fail("the assigned taxid %d is not in the taxonomy", taxid)
	}
	for _, b := range m.best {
		if !c.Tree.IsAncestorOrSelf(node, db.Node[b]) {
			return fail("the assigned taxid %d is not an ancestor-or-self of taxid %d, the taxon of best reference r%d (id %s)", taxid, c.Tree.Taxid[db.Node[b]], b, k.ids[b])
		}
	}
	if node != wantNode {
		return fail("the assigned taxid is %d", taxid)
	}
	if taxid != c.Tree.Taxid[node] {
		return fail("the assigned taxid %d is an old identifier of taxon %d", taxid, c.Tree.Taxid[node])
	}
	if string(o.annot["obitag_match_count"]) != strconv.Itoa(len(m.best)) {
		return fail("obitag_match_count is %s, %d kept references are at the minimal distance", o.annot["obitag_match_count"], len(m.best))
	}
	bid, e := strconv.ParseFloat(string(o.annot["obitag_bestid"]), 64)
	if e != nil || math.Abs(bid-m.bestIdentity()) > 1e-12 {
		return fail("obitag_bestid is %s", o.annot["obitag_bestid"])
	}
	var bm string
	okMatch := false
	if json.Unmarshal(o.annot["obitag_bestmatch"], &bm) == nil {
		for _, b := range m.best {
			if k.ids[b] == bm {
				okMatch = true
			}
		}
	}
	if !okMatch {
		return fail("obitag_bestmatch is %s, not the identifier of a kept reference at the minimal distance", o.annot["obitag_bestmatch"])
	}
	return nil
}

// ------------------------------------------------------------------ the generator

func genRaw(t *rapid.T) (rawCase, []string) {
	db, info := genDB(t, 25, 12)
	alphabet := info.Alphabet
	c := rawCase{Tree: db.Tree}
	ntax := c.Tree.N()
	next := 0
	for _, v := range c.Tree.Taxid {
		next = max(next, v)
	}
	fresh := func() int { next++; return next } // identifiers used by nothing else
	unknown := func(label string) int {
		switch rapid.IntRange(0, 5).Draw(t, label+"_unknown") {
		case 0:
			return 0
		case 1:
			return -1
		case 2:
			return 999999999
		}
		return fresh()
	}
	cl := []string{"raw_alphabet:" + alphabet, "raw_tree:" + info.TreeShape}

	// ---- the records of the generated database, each possibly changed
	var recs []rawRec
	for i, s := range db.Refs {
		label := fmt.Sprintf("rec%d", i)
		r := rawRec{ID: fmt.Sprintf("s%d", i), Seq: s, Taxid: c.Tree.Taxid[db.Node[i]], Kind: "plain"}
		switch op := rapid.IntRange(0, 19).Draw(t, label+"_op"); {
		case op < 11:
		case op < 13:
			r.Taxid, r.Kind = unknown(label), "unknown_taxid"
		case op < 15:
			old := fresh()
			c.Tree.Alias = append(c.Tree.Alias, [2]int{old, db.Node[i]})
			r.Taxid, r.Kind = old, "alias_taxid"
		case op < 17:
			r.NoTax, r.Taxid, r.Kind = true, 0, "no_taxid"
		case op < 19 && i > 0:
			r.ID, r.Kind = recs[rapid.IntRange(0, i-1).Draw(t, label+"_dupid")].ID, "repeated_id"
		}
		recs = append(recs, r)
	}
	// at least 2 records kept: by construction, the first discarded ones get their taxid back
	nkept := 0
	for _, r := range recs {
		if r.Kind != "unknown_taxid" {
			nkept++
		}
	}
	for i := range recs {
		if nkept >= 2 {
			break
		}
		if recs[i].Kind == "unknown_taxid" {
			recs[i].Taxid, recs[i].Kind = c.Tree.Taxid[db.Node[i]], "plain"
			nkept++
		}
	}

	// ---- records inserted first, last or anywhere
	insert := func(label string, r rawRec) {
		var p int
		switch rapid.IntRange(0, 5).Draw(t, label+"_where") {
		case 0, 1:
			p = 0
		case 2:
			p = len(recs)
		default:
			p = rapid.IntRange(0, len(recs)).Draw(t, label+"_pos")
		}
		recs = append(recs, rawRec{})
		copy(recs[p+1:], recs[p:])
		recs[p] = r
	}
	nextra := rapid.SampledFrom([]int{0, 1, 1, 1, 2, 2, 3, 4}).Draw(t, "nextra")
	for x := 0; x < nextra; x++ {
		label := fmt.Sprintf("extra%d", x)
		id := fmt.Sprintf("x%d", x)
		node := rapid.IntRange(0, ntax-1).Draw(t, label+"_node")
		switch kind := rapid.IntRange(0, 11).Draw(t, label+"_kind"); {
		case kind <= 1: // an unrelated record to discard
			s := gen.Seq(t, label, gen.Len(t, label+"_len", minRefLen, maxRefLen), alphabet)
			insert(label, rawRec{ID: id, Seq: s, Taxid: unknown(label), Kind: "unknown_taxid_unrelated"})
		case kind <= 4: // a record to discard that would be the best match of the first query: the query itself, or 1..2 edits away
			s, _ := gen.Mutate(t, label, db.Query, rapid.SampledFrom([]int{0, 0, 1, 2}).Draw(t, label+"_k"), alphabet, "sid")
			insert(label, rawRec{ID: id, Seq: clip(t, label+"_clip", s, 8, maxRefLen, alphabet), Taxid: unknown(label), Kind: "unknown_taxid_near_query"})
		case kind <= 6: // a record to discard that is a relative of another record
			p := recs[rapid.IntRange(0, len(recs)-1).Draw(t, label+"_of")]
			s, _ := gen.Mutate(t, label, p.Seq, rapid.IntRange(0, 3).Draw(t, label+"_k"), alphabet, "sid")
			insert(label, rawRec{ID: id, Seq: clip(t, label+"_clip", s, 4, maxRefLen, alphabet), Taxid: unknown(label), Kind: "unknown_taxid_relative"})
		case kind <= 9: // a reference shorter than a 4-mer, or shorter than what the other generators build
			n := rapid.SampledFrom([]int{1, 2, 3, 3, 4, 5, 7, 8, 10, 12, 16, 19}).Draw(t, label+"_len")
			s := gen.Seq(t, label, n, alphabet)
			if n >= 4 && n <= len(db.Query) && rapid.Bool().Draw(t, label+"_piece") { // a piece of the first query
				o := rapid.IntRange(0, len(db.Query)-n).Draw(t, label+"_off")
				s = db.Query[o : o+n]
			}
			kd := "short_1_3"
			if n >= 4 {
				kd = "short_4_19"
			}
			insert(label, rawRec{ID: id, Seq: s, Taxid: c.Tree.Taxid[node], Kind: kd})
		default: // the sequence of another record under another taxid
			p := recs[rapid.IntRange(0, len(recs)-1).Draw(t, label+"_of")]
			insert(label, rawRec{ID: id, Seq: p.Seq, Taxid: c.Tree.Taxid[node], Kind: "same_sequence_other_taxid"})
		}
	}
	c.Recs = recs

	// ---- the queries
	k := c.kept()
	firstDiscarded := -1
	for i := range c.Recs {
		if c.discarded(i) {
			firstDiscarded = i
			break
		}
	}
	var after []int // kept positions standing after the first discarded record
	var short []int // kept positions of the references of 4..19 nt
	for p, fp := range k.filePos {
		if firstDiscarded >= 0 && fp > firstDiscarded {
			after = append(after, p)
		}
		if c.Recs[fp].Kind == "short_4_19" {
			short = append(short, p)
		}
	}
	c.Queries = []string{db.Query}
	for x := rapid.IntRange(1, 4).Draw(t, "nqueries"); x > 0; x-- {
		label := fmt.Sprintf("query%d", x)
		pool := len(k.filePos)
		pick := rapid.IntRange(0, pool-1).Draw(t, label+"_of")
		if len(after) > 0 && rapid.Bool().Draw(t, label+"_after") {
			pick = after[pick%len(after)]
		}
		if len(short) > 0 && rapid.IntRange(0, 2).Draw(t, label+"_short") == 0 {
			pick = short[pick%len(short)]
		}
		q, _ := gen.Mutate(t, label, k.db.Refs[pick], rapid.SampledFrom([]int{0, 0, 1, 1, 2, 3}).Draw(t, label+"_k"), alphabet, "sid")
		if rapid.IntRange(0, 4).Draw(t, label+"_ends") == 0 {
			q, _ = derive(t, label+"_d", q, []int{0}, alphabet, 8, 180)
		}
		c.Queries = append(c.Queries, clip(t, label+"_clip", q, 8, 180, alphabet))
	}
	cpus := []int{1, 2, 2, 4}
	batches := []int{0, 0, 1, 3}
	c.IdxCPU = rapid.SampledFrom(cpus).Draw(t, "idxcpu")
	c.IdxBatch = rapid.SampledFrom(batches).Draw(t, "idxbatch")
	c.TagCPU = rapid.SampledFrom(cpus).Draw(t, "tagcpu")
	c.TagBatch = rapid.SampledFrom(batches).Draw(t, "tagbatch")
	return c, cl
}

// rawClasses labels a case from the brute force and tells whether it is non-trivial.
func rawClasses(c *rawCase) (bool, []string) {
	k := c.kept()
	var cl []string
	ndisc := 0
	for i, r := range c.Recs {
		cl = append(cl, "raw_record:"+r.Kind)
		if c.discarded(i) {
			ndisc++
			switch {
			case i == 0:
				cl = append(cl, "raw_discarded_record_first")
			case i == len(c.Recs)-1:
				cl = append(cl, "raw_discarded_record_last")
			default:
				cl = append(cl, "raw_discarded_record_inside")
			}
		}
	}
	cl = append(cl, "raw_discarded:"+bucket(ndisc, 0, 1, 2, 4), "raw_kept:"+bucket(len(k.filePos), 3, 8, 25))
	nontrivial := false
	for _, q := range c.Queries {
		db := k.db
		db.Query = q
		m := newModel(&db)
		si := m.scan()
		for _, b := range m.best {
			fp := k.filePos[b]
			switch kind := c.Recs[fp].Kind; kind {
			case "alias_taxid", "no_taxid", "repeated_id", "short_1_3", "short_4_19", "same_sequence_other_taxid":
				cl = append(cl, "raw_best_reference_is:"+kind)
				nontrivial = true
			}
			for i := 0; i < fp; i++ {
				if c.discarded(i) {
					cl = append(cl, "raw_best_reference_after_discarded_record")
					if si.skippable > 0 {
						cl = append(cl, "raw_best_after_discarded_and_scan_stops_early")
						nontrivial = true
					}
					break
				}
			}
		}
		// a discarded record closer to the query than every kept one
		for i, r := range c.Recs {
			if c.discarded(i) && align(q, r.Seq).d < m.dmin {
				cl = append(cl, "raw_discarded_record_closer_than_every_kept")
			}
		}
		if m.bestIdentity() < 0.5 {
			cl = append(cl, "raw_query_rejected")
		}
	}
	sort.Strings(cl)
	return nontrivial, dedup(cl)
}

func rawKey(c *rawCase) uint64 {
	b, _ := json.Marshal(c)
	return evid.Hash(string(b))
}

// TestPropRawDB: obirefidx and obitag on reference files holding records the
// commands discard (taxid unknown to the taxonomy) or treat specially (merged
// taxid, no taxid, very short, repeated identifier), against the brute force on the
// database the commands document they use.
func TestPropRawDB(t *testing.T) {
	if !run.Have("obirefidx") || !run.Have("obitag") {
		t.Fatalf("the driver did not build obirefidx / obitag (VERIF_BIN=%q)", os.Getenv("VERIF_BIN"))
	}
	rapid.Check(t, func(rt *rapid.T) {
		c, cl := genRaw(rt)
		nt, more := rawClasses(&c)
		cl = append(cl, more...)
		st, err := runRaw(&c)
		if errors.Is(err, errInconclusive) {
			evid.Class("timeout_inconclusive", 1)
			return
		}
		if st.ranB {
			cl = append(cl, "raw_obitag_on_unindexed_file")
		} else {
			cl = append(cl, "raw_obitag_on_unindexed_file_not_run_last_record_discarded")
		}
		sort.Strings(cl)
		evid.Eval("rawdb", rawKey(&c), nt, c, dedup(cl)...)
		if err != nil {
			evid.Fail(rt, "rawdb", c, err)
		}
	})
}
