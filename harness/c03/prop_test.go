package c03

import (
	"fmt"
	"testing"

	"pgregory.net/rapid"

	"verifharness/internal/evid"
)

func registerTests() {
	evid.Tests(
		evid.Spec{Name: "TestReplay", Kind: "plain", QuickShards: 1, ThoroughShards: 1},
		evid.Spec{Name: "TestExhaustiveSortBatches", Kind: "plain", QuickShards: 4, ThoroughShards: 8},
		evid.Spec{Name: "TestPropSingleStage", Kind: "rapid", Quick: 24000, Thorough: 200000, QuickShards: 16, ThoroughShards: 16},
		evid.Spec{Name: "TestPropPipeline", Kind: "rapid", Quick: 24000, Thorough: 200000, QuickShards: 16, ThoroughShards: 16},
		evid.Spec{Name: "TestPropCommands", Kind: "rapid", Quick: 480, Thorough: 12000, QuickShards: 16, ThoroughShards: 16},
		evid.Spec{Name: "TestPropDirectoryInputs", Kind: "rapid", Quick: 160, Thorough: 4000, QuickShards: 8, ThoroughShards: 16},
		evid.Spec{Name: "TestPropFiles", Kind: "rapid", Quick: 6000, Thorough: 60000, QuickShards: 8, ThoroughShards: 16},
	)
	evid.Note("rule", "a case = sources (batch sizes >= 0 incl. empty batches/streams, arrival permutation of the batch numbers, 1..4 producer goroutines) + a pipeline of real obiiter combinators (MakeIWorker/MakeISliceWorker keep/drop/duplicate, FilterOn, FilterAnd, FilterEmpty, Rebatch, SortBatches, LimitMemory, Pool, Concat, IFragments, CompleteFileIterator, ReadSequencesBatchFromFiles) with generated worker counts and sizes, ended by a drain, DivideOn, Distribute or PairTo(+PairedWith); optional push jitter and GOMAXPROCS 1/2. Oracle: a sequential model on lists of record ids: output batch numbers are exactly 0..m-1, the concatenation by batch number equals the model sequence (multiset after Pool / several file readers), every record of DivideOn/Distribute is in exactly one output, mates keep their rank; the drain terminates. Non-trivial = arrival order differs from the identity and (an empty batch, or >= 2 workers, or >= 2 stages). Distinct = hash of the whole case. Commands: obiconvert / obigrep -l / obiannotate --length over 1..3 generated FASTA/FASTQ files (some spanning several 1 MiB read chunks) with --max-cpu, --batch-size and push jitter: stdout ids = selected ids in input order, exit 0, terminates (non-trivial = several batches and more than one CPU). Exhaustive part: SortBatches/Rebatch/FilterEmpty on every arrival permutation x every empty-subset for n <= 5 (quick) / 6 (thorough) batches.")
	evid.Commands("obiconvert", "obigrep", "obiannotate")
	evid.Reg("pipeline", checkPipeline)
}

func TestReplay(t *testing.T) { evid.Replay(t) }

// ---------------------------------------------------------------- generators

func genSrc(t *rapid.T, label string, maxBatches, maxSize int, allowEmptyStream bool) Src {
	lo := 1
	if allowEmptyStream {
		lo = 0
	}
	n := rapid.IntRange(lo, maxBatches).Draw(t, label+"_nbatches")
	if allowEmptyStream && rapid.IntRange(0, 5).Draw(t, label+"_emptystream") == 0 {
		n = 0
	}
	s := Src{Sizes: make([]int, n)}
	for i := range s.Sizes {
		if rapid.IntRange(0, 4).Draw(t, label+"_empty") == 0 {
			s.Sizes[i] = 0
		} else {
			s.Sizes[i] = rapid.IntRange(1, maxSize).Draw(t, label+"_size")
		}
	}
	s.Arrival = rapid.Permutation(seqInts(n)).Draw(t, label+"_arrival")
	if rapid.IntRange(0, 3).Draw(t, label+"_inorder") == 0 {
		s.Arrival = seqInts(n)
	}
	s.Producers = rapid.IntRange(1, 4).Draw(t, label+"_producers")
	return s
}

func seqInts(n int) []int {
	s := make([]int, n)
	for i := range s {
		s[i] = i
	}
	return s
}

func (s Src) total() int {
	n := 0
	for _, x := range s.Sizes {
		n += x
	}
	return n
}

func (s Src) permuted() bool {
	for i, k := range s.Arrival {
		if i != k {
			return true
		}
	}
	return false
}

func (s Src) hasEmpty() bool {
	for _, x := range s.Sizes {
		if x == 0 {
			return true
		}
	}
	return len(s.Sizes) == 0
}

var simpleOps = []string{"worker", "slicew", "filter", "filterand", "filterempty", "rebatch", "sort", "limitmem", "pool", "concat", "fragments", "complete"}

func genStage(t *rapid.T, op string, fragmentedAlready, pooled bool) Stage {
	st := Stage{Op: op}
	st.Workers = rapid.IntRange(1, 8).Draw(t, "workers")
	st.Mod = rapid.IntRange(1, 5).Draw(t, "mod")
	st.Rem = rapid.IntRange(0, st.Mod-1).Draw(t, "rem")
	st.Size = rapid.SampledFrom([]int{1, 2, 3, 7, 50}).Draw(t, "size")
	switch op {
	case "worker", "slicew":
		st.Kind = rapid.IntRange(0, 2).Draw(t, "kind")
		if fragmentedAlready && st.Kind == 2 {
			st.Kind = 1
		}
	case "pool", "concat":
		k := rapid.IntRange(1, 3).Draw(t, "nextra")
		for i := 0; i < k; i++ {
			st.Extra = append(st.Extra, genSrc(t, fmt.Sprintf("extra%d", i), 5, 4, true))
		}
	case "fragments":
		st.Length = rapid.IntRange(2, 12).Draw(t, "frag_length")
		st.Overlap = rapid.IntRange(0, st.Length-1).Draw(t, "frag_overlap")
		st.MinSize = rapid.IntRange(0, 20).Draw(t, "frag_minsize")
	}
	return st
}

func genFinal(t *rapid.T, main Src, stages []Stage, allowPair bool) Final {
	ops := []string{"drain", "drain", "divide", "distribute"}
	if allowPair {
		ops = append(ops, "pair", "pair")
	}
	f := Final{Op: rapid.SampledFrom(ops).Draw(t, "final")}
	f.Mod = rapid.IntRange(1, 4).Draw(t, "fmod")
	f.Rem = rapid.IntRange(0, f.Mod-1).Draw(t, "frem")
	f.Size = rapid.SampledFrom([]int{1, 2, 3, 7, 50}).Draw(t, "fsize")
	if f.Op == "pair" {
		// a mate stream with the same number of records, cut differently
		total := main.total()
		var sizes []int
		for left := total; left > 0; {
			n := rapid.IntRange(1, max(1, min(left, 5))).Draw(t, "mate_size")
			sizes = append(sizes, n)
			left -= n
			if rapid.IntRange(0, 5).Draw(t, "mate_empty") == 0 {
				sizes = append(sizes, 0)
			}
		}
		m := Src{Sizes: sizes, Arrival: rapid.Permutation(seqInts(len(sizes))).Draw(t, "mate_arrival"), Producers: rapid.IntRange(1, 3).Draw(t, "mate_producers")}
		f.Mate = &m
		f.Twice = rapid.Bool().Draw(t, "pair_twice")
	}
	return f
}

func genEnv(t *rapid.T, c *Case) {
	c.LenBase = rapid.IntRange(1, 6).Draw(t, "lenbase")
	c.LenMod = rapid.IntRange(1, 30).Draw(t, "lenmod")
	c.Jitter = rapid.SampledFrom([]int{0, 0, 20, 200}).Draw(t, "jitter")
	c.Procs = rapid.SampledFrom([]int{0, 0, 1, 2}).Draw(t, "procs")
}

func classify(c Case) (bool, []string) {
	var cl []string
	permuted := c.Main.permuted()
	empty := c.Main.hasEmpty()
	workers := 0
	for _, f := range c.Files {
		permuted = permuted || f.permuted()
		empty = empty || f.hasEmpty()
	}
	for _, st := range c.Stages {
		cl = append(cl, "op:"+st.Op)
		workers = max(workers, st.Workers)
		for i, e := range st.Extra {
			permuted = permuted || e.permuted()
			if len(e.Sizes) == 0 {
				cl = append(cl, "empty_extra_stream")
				if i < len(st.Extra)-1 {
					cl = append(cl, "empty_middle_stream")
				}
			}
		}
	}
	if len(c.Files) == 0 && len(c.Main.Sizes) == 0 {
		cl = append(cl, "empty_first_stream")
	}
	if c.Main.total() == 1 {
		cl = append(cl, "single_record")
	}
	if len(c.Main.Sizes) >= 100 {
		cl = append(cl, "hundreds_of_batches")
	}
	cl = append(cl, "final:"+c.Final.Op)
	if empty {
		cl = append(cl, "has_empty_batch")
	}
	if permuted {
		cl = append(cl, "arrival_permuted")
	}
	if c.Jitter > 0 {
		cl = append(cl, "jitter")
	}
	nt := permuted && (empty || workers >= 2 || len(c.Stages) >= 2)
	return nt, cl
}

func runCase(t *rapid.T, c Case) {
	nt, cl := classify(c)
	evid.Eval("pipeline", evid.Hash(fmt.Sprintf("%+v", c)), nt, c, cl...)
	if err := checkPipeline(c); err != nil {
		evid.Fail(t, "pipeline", c, err)
	}
}

// one combinator between a generated source and a generated consumer
func TestPropSingleStage(t *testing.T) {
	rapid.Check(t, func(rt *rapid.T) {
		var c Case
		c.Main = genSrc(rt, "main", 8, 6, true)
		op := rapid.SampledFrom(simpleOps).Draw(rt, "op")
		c.Stages = []Stage{genStage(rt, op, false, false)}
		c.Final = genFinal(rt, c.Main, c.Stages, false)
		if op == "fragments" || op == "pool" {
			c.Final.Op = "drain"
		}
		genEnv(rt, &c)
		if op == "fragments" {
			c.LenMod = rapid.IntRange(1, 60).Draw(rt, "fraglenmod")
		}
		runCase(rt, c)
	})
}

// compositions of depth 0..4
func TestPropPipeline(t *testing.T) {
	rapid.Check(t, func(rt *rapid.T) {
		var c Case
		if rapid.IntRange(0, 19).Draw(rt, "many_batches") == 0 {
			// hundreds of small batches: re-sequencing buffers and counters far from their first values
			c.Main = genSrc(rt, "main", rapid.IntRange(300, 1500).Draw(rt, "nbatches_max"), 3, false)
		} else {
			c.Main = genSrc(rt, "main", 8, 6, true)
		}
		depth := rapid.IntRange(0, 4).Draw(rt, "depth")
		fragmented, pooled := false, false
		for i := 0; i < depth; i++ {
			op := rapid.SampledFrom(simpleOps).Draw(rt, "op")
			if op == "fragments" && (fragmented || pooled) {
				op = "rebatch"
			}
			if op == "pool" && fragmented {
				op = "concat"
			}
			if op == "concat" && fragmented {
				op = "sort"
			}
			st := genStage(rt, op, fragmented, pooled)
			c.Stages = append(c.Stages, st)
			fragmented = fragmented || op == "fragments"
			pooled = pooled || op == "pool"
		}
		grows := false
		for _, st := range c.Stages {
			if st.Op == "pool" || st.Op == "concat" || st.Op == "fragments" || st.Op == "filter" || st.Op == "filterand" ||
				((st.Op == "worker" || st.Op == "slicew") && st.Kind != 0) {
				grows = true // record count of the main stream no longer equals the source's
			}
		}
		c.Final = genFinal(rt, c.Main, c.Stages, !grows)
		if fragmented || pooled {
			if c.Final.Op == "distribute" || c.Final.Op == "divide" {
				c.Final.Op = "drain"
			}
		}
		genEnv(rt, &c)
		if len(c.Main.Sizes) >= 100 {
			c.Jitter = 0 // the perturbation sleeps at every push: pointless and slow on hundreds of batches
		}
		runCase(rt, c)
	})
}

// several "files" read through ReadSequencesBatchFromFiles
func TestPropFiles(t *testing.T) {
	rapid.Check(t, func(rt *rapid.T) {
		var c Case
		n := rapid.IntRange(1, 4).Draw(rt, "nfiles")
		for i := 0; i < n; i++ {
			c.Files = append(c.Files, genSrc(rt, fmt.Sprintf("file%d", i), 5, 4, true))
		}
		c.Readers = rapid.SampledFrom([]int{1, 1, 1, 2, 3}).Draw(rt, "readers")
		if rapid.Bool().Draw(rt, "then_rebatch") {
			c.Stages = []Stage{genStage(rt, rapid.SampledFrom([]string{"rebatch", "sort", "worker", "filter"}).Draw(rt, "op"), false, false)}
		}
		c.Final = Final{Op: "drain"}
		genEnv(rt, &c)
		runCase(rt, c)
	})
}

// ---------------------------------------------------------------- exhaustive re-sequencing histories

func permutations(n int) [][]int {
	if n == 0 {
		return [][]int{{}}
	}
	var out [][]int
	var rec func(cur []int, used int)
	rec = func(cur []int, used int) {
		if len(cur) == n {
			out = append(out, append([]int(nil), cur...))
			return
		}
		for i := 0; i < n; i++ {
			if used&(1<<i) == 0 {
				rec(append(cur, i), used|1<<i)
			}
		}
	}
	rec(nil, 0)
	return out
}

func TestExhaustiveSortBatches(t *testing.T) {
	maxN := evid.Pick(5, 6)
	i := 0
	for n := 0; n <= maxN; n++ {
		for _, perm := range permutations(n) {
			for emptyMask := 0; emptyMask < 1<<n; emptyMask++ {
				i++
				if i%evid.NShards() != evid.Shard() {
					continue
				}
				sizes := make([]int, n)
				for k := range sizes {
					if emptyMask&(1<<k) == 0 {
						sizes[k] = 1 + k%2
					}
				}
				for _, op := range []string{"sort", "rebatch", "filterempty"} {
					c := Case{Main: Src{Sizes: sizes, Arrival: perm, Producers: 1}, Stages: []Stage{{Op: op, Size: 2}}, Final: Final{Op: "drain"}, LenBase: 3, LenMod: 1}
					nt, cl := classify(c)
					evid.Eval("pipeline", evid.Hash(fmt.Sprintf("%+v", c)), nt, c, append(cl, "exhaustive")...)
					if err := checkPipeline(c); err != nil {
						evid.Fail(t, "pipeline", c, err)
					}
				}
			}
		}
	}
	evid.Exhaustive(fmt.Sprintf("SortBatches, Rebatch, FilterEmpty on every arrival permutation x every subset of empty batches for n <= %d batches (single producer)", maxN))
}
