package c03

import (
	"bytes"
	"fmt"
	"os"
	"path/filepath"
	"strconv"
	"strings"
	"testing"
	"time"

	"pgregory.net/rapid"

	"verifharness/internal/evid"
	"verifharness/internal/ref"
	"verifharness/internal/run"
)

// End-to-end: the record ids on stdout of obiconvert / obigrep / obiannotate are
// exactly the ids selected by the command's semantics, in input order (files in
// command-line order), for any --max-cpu / --batch-size, and the command terminates.

type fileSpec struct {
	N      int // number of records
	MinLen int // record j has MinLen + (j*7)%Spread nucleotides
	Spread int
}

type cmdCase struct {
	Files   []fileSpec
	Tool    string // obiconvert, obigrep, obiannotate
	MinLen  int    // obigrep -l
	MaxCPU  int    // 0 = option not given
	Batch   int    // 0 = option not given
	Jitter  int
	FastqIn bool
}

func init() { evid.Reg("command", checkCommand) }

func (f fileSpec) recLen(j int) int { return f.MinLen + (j*7)%max(1, f.Spread) }

func renderFile(fi int, f fileSpec, fastq bool) ([]byte, []mrec) {
	var b bytes.Buffer
	var recs []mrec
	for j := 0; j < f.N; j++ {
		id := fmt.Sprintf("f%d_%d", fi, j)
		s := recSeq(fi*1000003+j, f.recLen(j))
		recs = append(recs, mrec{id, s})
		if fastq {
			fmt.Fprintf(&b, "@%s {\"rank\":%d}\n%s\n+\n%s\n", id, j, s, strings.Repeat("I", len(s)))
		} else {
			fmt.Fprintf(&b, ">%s {\"rank\":%d}\n", id, j)
			for p := 0; p < len(s); p += 60 {
				b.WriteString(s[p:min(len(s), p+60)])
				b.WriteByte('\n')
			}
		}
	}
	return b.Bytes(), recs
}

func checkCommand(c cmdCase) error {
	dir, err := os.MkdirTemp(run.WorkDir(), "c03cmd")
	if err != nil {
		return nil
	}
	defer os.RemoveAll(dir)
	var want []mrec
	var args []string
	if c.MaxCPU > 0 {
		args = append(args, "--max-cpu", strconv.Itoa(c.MaxCPU))
	}
	if c.Batch > 0 {
		args = append(args, "--batch-size", strconv.Itoa(c.Batch))
	}
	switch c.Tool {
	case "obigrep":
		args = append(args, "-l", strconv.Itoa(c.MinLen))
	case "obiannotate":
		args = append(args, "--length")
	}
	ext := ".fasta"
	if c.FastqIn {
		ext = ".fastq"
	}
	for i, f := range c.Files {
		data, recs := renderFile(i, f, c.FastqIn)
		p := filepath.Join(dir, fmt.Sprintf("in%d%s", i, ext))
		if err := os.WriteFile(p, data, 0o644); err != nil {
			return nil
		}
		args = append(args, p)
		for _, r := range recs {
			if c.Tool != "obigrep" || len(r.Seq) >= c.MinLen {
				want = append(want, r)
			}
		}
	}
	var env []string
	if c.Jitter > 0 {
		env = append(env, fmt.Sprintf("VERIF_JITTER=%d:%d", c.Jitter*31+1, c.Jitter))
	}
	var res run.Result
	for attempt := 0; attempt < 3; attempt++ {
		res = run.Cmd(run.Opt{Env: env, Timeout: 90 * time.Second}, c.Tool, args...)
		if !res.TimedOut {
			break
		}
	}
	if res.TimedOut {
		return fmt.Errorf("%s %v did not terminate within 90 s, three times in a row", c.Tool, args)
	}
	if res.ResourceExhausted() {
		evid.Class("resource_exhaustion_inconclusive", 1)
		return nil
	}
	if res.Exit != 0 {
		return fmt.Errorf("%s %v exited with status %d: %s", c.Tool, args, res.Exit, tail(res.Stderr))
	}
	var got []ref.Rec
	if c.FastqIn {
		got, err = ref.ParseFastq(res.Stdout)
	} else {
		got, err = ref.ParseFasta(res.Stdout)
	}
	if err != nil {
		return fmt.Errorf("%s %v: output is not well formed: %v", c.Tool, args, err)
	}
	if len(got) != len(want) {
		return fmt.Errorf("%s %v: %d records on stdout, %d expected", c.Tool, args, len(got), len(want))
	}
	for i := range got {
		if got[i].ID != want[i].ID || got[i].Seq != want[i].Seq {
			return fmt.Errorf("%s %v: record at rank %d is %s (%d nt), expected %s (%d nt)", c.Tool, args, i, got[i].ID, len(got[i].Seq), want[i].ID, len(want[i].Seq))
		}
	}
	return nil
}

func tail(b []byte) string {
	if len(b) > 600 {
		b = b[len(b)-600:]
	}
	return string(b)
}

func TestPropCommands(t *testing.T) {
	rapid.Check(t, func(rt *rapid.T) {
		var c cmdCase
		c.Tool = rapid.SampledFrom([]string{"obiconvert", "obigrep", "obiannotate"}).Draw(rt, "tool")
		nf := rapid.IntRange(1, 3).Draw(rt, "nfiles")
		big := rapid.IntRange(0, 5).Draw(rt, "big") == 0 // files spanning several 1 MiB read chunks
		for i := 0; i < nf; i++ {
			f := fileSpec{N: rapid.IntRange(0, 40).Draw(rt, "nrec"), MinLen: rapid.IntRange(1, 70).Draw(rt, "minlen"), Spread: rapid.IntRange(1, 80).Draw(rt, "spread")}
			if big {
				f.N = rapid.IntRange(9000, 16000).Draw(rt, "nrec_big")
				f.MinLen = rapid.IntRange(100, 130).Draw(rt, "minlen_big")
			}
			c.Files = append(c.Files, f)
		}
		c.MinLen = rapid.IntRange(1, 150).Draw(rt, "grep_minlen")
		c.MaxCPU = rapid.SampledFrom([]int{0, 1, 2, 3, 8, 16, 32}).Draw(rt, "maxcpu")
		c.Batch = rapid.SampledFrom([]int{0, 1, 2, 3, 7, 100}).Draw(rt, "batch")
		if big && c.Batch > 0 && c.Batch < 100 {
			c.Batch = 100
		}
		c.Jitter = rapid.SampledFrom([]int{0, 0, 50, 500}).Draw(rt, "jitter")
		c.FastqIn = rapid.IntRange(0, 3).Draw(rt, "fastq") == 0
		total := 0
		for _, f := range c.Files {
			total += f.N
		}
		cl := []string{"tool:" + c.Tool}
		if big {
			cl = append(cl, "multi_chunk_files")
		}
		if nf > 1 {
			cl = append(cl, "several_files")
		}
		if total == 0 {
			cl = append(cl, "empty_input")
		}
		nt := (big || (c.Batch > 0 && c.Batch < total)) && c.MaxCPU != 1
		evid.Eval("command", evid.Hash(fmt.Sprintf("%+v", c)), nt, c, cl...)
		if err := checkCommand(c); err != nil {
			evid.Fail(rt, "command", c, err)
		}
	})
}
