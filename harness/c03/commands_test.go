package c03

import (
	"bytes"
	"fmt"
	"os"
	"path/filepath"
	"strconv"
	"strings"
	"testing"
	"time"

	"pgregory.net/rapid"

	"verifharness/internal/evid"
	"verifharness/internal/ref"
	"verifharness/internal/run"
)

// End-to-end: the record ids on stdout of obiconvert / obigrep / obiannotate are
// exactly the ids selected by the command's semantics, in input order (files in
// command-line order), for any --max-cpu / --batch-size, and the command terminates.

type fileSpec struct {
	N      int // number of records
	MinLen int // record j has MinLen + (j*7)%Spread nucleotides
	Spread int
}

type cmdCase struct {
	Files   []fileSpec
	Tool    string // obiconvert, obigrep, obiannotate
	MinLen  int    // obigrep -l
	MaxCPU  int    // 0 = option not given
	Batch   int    // 0 = option not given
	Jitter  int
	FastqIn bool
}

func init() { evid.Reg("command", checkCommand) }

func (f fileSpec) recLen(j int) int { return f.MinLen + (j*7)%max(1, f.Spread) }

func renderFile(fi int, f fileSpec, fastq bool) ([]byte, []mrec) {
	var b bytes.Buffer
	var recs []mrec
	for j := 0; j < f.N; j++ {
		id := fmt.Sprintf("f%d_%d", fi, j)
		s := recSeq(fi*1000003+j, f.recLen(j))
		recs = append(recs, mrec{id, s})
		if fastq {
			fmt.Fprintf(&b, "@%s {\"rank\":%d}\n%s\n+\n%s\n", id, j, s, strings.Repeat("I", len(s)))
		} else {
			fmt.Fprintf(&b, ">%s {\"rank\":%d}\n", id, j)
			for p := 0; p < len(s); p += 60 {
				b.WriteString(s[p:min(len(s), p+60)])
				b.WriteByte('\n')
			}
		}
	}
	return b.Bytes(), recs
}

func checkCommand(c cmdCase) error {
	dir, err := os.MkdirTemp(run.WorkDir(), "c03cmd")
	if err != nil {
		return nil
	}
	defer os.RemoveAll(dir)
	var want []mrec
	var args []string
	if c.MaxCPU > 0 {
		args = append(args, "--max-cpu", strconv.Itoa(c.MaxCPU))
	}
	if c.Batch > 0 {
		args = append(args, "--batch-size", strconv.Itoa(c.Batch))
	}
	switch c.Tool {
	case "obigrep":
		args = append(args, "-l", strconv.Itoa(c.MinLen))
	case "obiannotate":
		args = append(args, "--length")
	}
	ext := ".fasta"
	if c.FastqIn {
		ext = ".fastq"
	}
	for i, f := range c.Files {
		data, recs := renderFile(i, f, c.FastqIn)
		p := filepath.Join(dir, fmt.Sprintf("in%d%s", i, ext))
		if err := os.WriteFile(p, data, 0o644); err != nil {
			return nil
		}
		args = append(args, p)
		for _, r := range recs {
			if c.Tool != "obigrep" || len(r.Seq) >= c.MinLen {
				want = append(want, r)
			}
		}
	}
	var env []string
	if c.Jitter > 0 {
		env = append(env, fmt.Sprintf("VERIF_JITTER=%d:%d", c.Jitter*31+1, c.Jitter))
	}
	var res run.Result
	for attempt := 0; attempt < 3; attempt++ {
		res = run.Cmd(run.Opt{Env: env, Timeout: 90 * time.Second}, c.Tool, args...)
		if !res.TimedOut {
			break
		}
	}
	if res.TimedOut {
		return fmt.Errorf("%s %v did not terminate within 90 s, three times in a row", c.Tool, args)
	}
	if res.ResourceExhausted() {
		evid.Class("resource_exhaustion_inconclusive", 1)
		return nil
	}
	if res.Exit != 0 {
		return fmt.Errorf("%s %v exited with status %d: %s", c.Tool, args, res.Exit, tail(res.Stderr))
	}
	var got []ref.Rec
	if c.FastqIn {
		got, err = ref.ParseFastq(res.Stdout)
	} else {
		got, err = ref.ParseFasta(res.Stdout)
	}
	if err != nil {
		return fmt.Errorf("%s %v: output is not well formed: %v", c.Tool, args, err)
	}
	if len(got) != len(want) {
		return fmt.Errorf("%s %v: %d records on stdout, %d expected", c.Tool, args, len(got), len(want))
	}
	for i := range got {
		if got[i].ID != want[i].ID || got[i].Seq != want[i].Seq {
			return fmt.Errorf("%s %v: record at rank %d is %s (%d nt), expected %s (%d nt)", c.Tool, args, i, got[i].ID, len(got[i].Seq), want[i].ID, len(want[i].Seq))
		}
	}
	return nil
}

func tail(b []byte) string {
	if len(b) > 600 {
		b = b[len(b)-600:]
	}
	return string(b)
}

func TestPropCommands(t *testing.T) {
	rapid.Check(t, func(rt *rapid.T) {
		var c cmdCase
		c.Tool = rapid.SampledFrom([]string{"obiconvert", "obigrep", "obiannotate"}).Draw(rt, "tool")
		nf := rapid.IntRange(1, 3).Draw(rt, "nfiles")
		big := rapid.IntRange(0, 5).Draw(rt, "big") == 0 // files spanning several 1 MiB read chunks
		for i := 0; i < nf; i++ {
			f := fileSpec{N: rapid.IntRange(0, 40).Draw(rt, "nrec"), MinLen: rapid.IntRange(1, 70).Draw(rt, "minlen"), Spread: rapid.IntRange(1, 80).Draw(rt, "spread")}
			if big {
				f.N = rapid.IntRange(9000, 16000).Draw(rt, "nrec_big")
				f.MinLen = rapid.IntRange(100, 130).Draw(rt, "minlen_big")
			}
			c.Files = append(c.Files, f)
		}
		c.MinLen = rapid.IntRange(1, 150).Draw(rt, "grep_minlen")
		c.MaxCPU = rapid.SampledFrom([]int{0, 1, 2, 3, 8, 16, 32}).Draw(rt, "maxcpu")
		c.Batch = rapid.SampledFrom([]int{0, 1, 2, 3, 7, 100}).Draw(rt, "batch")
		if big && c.Batch > 0 && c.Batch < 100 {
			c.Batch = 100
		}
		c.Jitter = rapid.SampledFrom([]int{0, 0, 50, 500}).Draw(rt, "jitter")
		c.FastqIn = rapid.IntRange(0, 3).Draw(rt, "fastq") == 0
		total := 0
		for _, f := range c.Files {
			total += f.N
		}
		cl := []string{"tool:" + c.Tool}
		if big {
			cl = append(cl, "multi_chunk_files")
		}
		if nf > 1 {
			cl = append(cl, "several_files")
		}
		if total == 0 {
			cl = append(cl, "empty_input")
		}
		nt := (big || (c.Batch > 0 && c.Batch < total)) && c.MaxCPU != 1
		evid.Eval("command", evid.Hash(fmt.Sprintf("%+v", c)), nt, c, cl...)
		if err := checkCommand(c); err != nil {
			evid.Fail(rt, "command", c, err)
		}
	})
}

// ---------------------------------------------------------------- directory arguments

// A directory given as input stands for every sequence file below it, including
// those reached through symbolic links (to files and to directories); other
// files are ignored.  Every record of those files is output exactly once, the
// records of one file in file order (the order between files is not specified).
type dirCase struct {
	Files  []fileSpec
	Places []int // where file i lives: 0 root, 1 root/sub, 2 root/sub/deep, 3 outside reached by a directory link, 4 outside reached by a file link
	Tool   string
	MaxCPU int
}

func init() { evid.Reg("directory", checkDirectory) }

func checkDirectory(c dirCase) error {
	dir, err := os.MkdirTemp(run.WorkDir(), "c03dir")
	if err != nil {
		return nil
	}
	defer os.RemoveAll(dir)
	root := filepath.Join(dir, "root")
	linked := filepath.Join(dir, "elsewhere", "linked_dir")
	single := filepath.Join(dir, "elsewhere", "single")
	for _, d := range []string{filepath.Join(root, "sub", "deep"), linked, single} {
		if os.MkdirAll(d, 0o755) != nil {
			return nil
		}
	}
	os.WriteFile(filepath.Join(root, "README.txt"), []byte("not a sequence file\n"), 0o644)
	os.WriteFile(filepath.Join(root, "sub", "notes.md"), []byte(">looks like fasta\nacgt\n"), 0o644)
	usedLinkDir := false
	want := map[string][]string{} // file tag -> ids in order
	for i, f := range c.Files {
		data, recs := renderFile(i, f, false)
		name := fmt.Sprintf("f%d.fasta", i)
		var p string
		switch c.Places[i] % 5 {
		case 0:
			p = filepath.Join(root, name)
		case 1:
			p = filepath.Join(root, "sub", name)
		case 2:
			p = filepath.Join(root, "sub", "deep", name)
		case 3:
			p = filepath.Join(linked, name)
			usedLinkDir = true
		case 4:
			p = filepath.Join(single, name)
			if os.Symlink(p, filepath.Join(root, "sub", "link_"+name)) != nil {
				return nil
			}
		}
		if os.WriteFile(p, data, 0o644) != nil {
			return nil
		}
		for _, r := range recs {
			want[fmt.Sprintf("f%d", i)] = append(want[fmt.Sprintf("f%d", i)], r.ID)
		}
	}
	if usedLinkDir {
		if os.Symlink(linked, filepath.Join(root, "link_to_dir")) != nil {
			return nil
		}
	}
	args := []string{}
	if c.MaxCPU > 0 {
		args = append(args, "--max-cpu", strconv.Itoa(c.MaxCPU))
	}
	if c.Tool == "obigrep" {
		args = append(args, "-l", "1")
	}
	args = append(args, root)
	res := run.Cmd(run.Opt{Timeout: 90 * time.Second}, c.Tool, args...)
	if res.Inconclusive() {
		evid.Class("inconclusive_run", 1)
		return nil
	}
	total := 0
	for _, ids := range want {
		total += len(ids)
	}
	if res.Exit != 0 {
		if total == 0 {
			return nil // nothing to read below the directory: refusing is fine
		}
		return fmt.Errorf("%s %s (directory argument) exits %d: %s", c.Tool, root, res.Exit, tail(res.Stderr))
	}
	got, err := ref.ParseFasta(res.Stdout)
	if err != nil {
		return fmt.Errorf("%s on a directory: output is not well formed: %v", c.Tool, err)
	}
	seen := map[string][]string{}
	for _, r := range got {
		tag := r.ID
		if i := strings.IndexByte(tag, '_'); i > 0 {
			tag = tag[:i]
		}
		seen[tag] = append(seen[tag], r.ID)
	}
	for tag, ids := range want {
		if len(seen[tag]) != len(ids) {
			return fmt.Errorf("%s %s: file %s.fasta (place %v) contributes %d records to the output, it holds %d (files found: %d records of %d in total)", c.Tool, root, tag, c.Places, len(seen[tag]), len(ids), len(got), total)
		}
		for i := range ids {
			if seen[tag][i] != ids[i] {
				return fmt.Errorf("%s %s: records of %s.fasta are out of order: rank %d is %s, expected %s", c.Tool, root, tag, i, seen[tag][i], ids[i])
			}
		}
	}
	if len(got) != total {
		return fmt.Errorf("%s %s: %d records on stdout, the sequence files below the directory hold %d", c.Tool, root, len(got), total)
	}
	return nil
}

func TestPropDirectoryInputs(t *testing.T) {
	rapid.Check(t, func(rt *rapid.T) {
		var c dirCase
		c.Tool = rapid.SampledFrom([]string{"obiconvert", "obigrep"}).Draw(rt, "tool")
		n := rapid.IntRange(1, 5).Draw(rt, "nfiles")
		for i := 0; i < n; i++ {
			c.Files = append(c.Files, fileSpec{N: rapid.IntRange(1, 12).Draw(rt, "nrec"), MinLen: rapid.IntRange(5, 40).Draw(rt, "minlen"), Spread: rapid.IntRange(1, 30).Draw(rt, "spread")})
			c.Places = append(c.Places, rapid.IntRange(0, 4).Draw(rt, "place"))
		}
		c.MaxCPU = rapid.SampledFrom([]int{0, 1, 4}).Draw(rt, "maxcpu")
		links := false
		for _, p := range c.Places {
			links = links || p >= 3
		}
		cl := []string{"directory_argument"}
		if links {
			cl = append(cl, "reached_through_symlink")
		}
		evid.Eval("directory", evid.Hash(fmt.Sprintf("%+v", c)), links && n >= 2, c, cl...)
		if err := checkDirectory(c); err != nil {
			evid.Fail(rt, "directory", c, err)
		}
	})
}
