// Property C03 — no record is lost, duplicated or reordered between reader and
// writer (stream combinators of pkg/obiiter).
//
// Domain decisions
//   - MakeIConditionalWorker is not part of the grammar: it drops the records
//     that do not satisfy its condition; whether that is intended is not stated.
//   - CompleteFileIterator is applied to streams whose batches arrive in any
//     order: ReadGenbank / ReadEMBL call it on the unsorted output of their
//     parsing workers.
//   - Pool renumbers batches in arrival order: only the multiset of records and
//     the batch numbering are checked downstream of a Pool.
//   - ReadSequencesBatchFromFiles: with one reader the files are concatenated in
//     list order (the documented default; --no-order gives that up), with
//     several readers only the multiset is checked.
//   - IFragments has no written specification of where it cuts; what is checked
//     is that the fragments of a record, glued back with the declared overlap,
//     give the record, and that no fragment is longer than length+step.
//   - IMergeSequenceBatch is exercised by C06 (its contract is about counts).
//   - "always terminates" is observed as: the drain of a pipeline did not
//     complete within 10 s + 20 ms per batch push of the case, three times in a
//     row on the same case.
package c03

import (
	"fmt"
	"os"
	"runtime"
	"sort"
	"strconv"
	"strings"
	"sync"
	"testing"
	"time"

	"git.metabarcoding.org/obitools/obitools4/obitools4/pkg/obiformats"
	"git.metabarcoding.org/obitools/obitools4/obitools4/pkg/obiiter"
	"git.metabarcoding.org/obitools/obitools4/obitools4/pkg/obioptions"
	"git.metabarcoding.org/obitools/obitools4/obitools4/pkg/obiseq"

	"verifharness/internal/evid"
	"verifharness/internal/fatal"
)

// ---------------------------------------------------------------- case

// Src describes a stream by its logical content and by how it reaches the
// consumer: batch k holds Sizes[k] consecutive records; batches are pushed in
// the order Arrival (a permutation of the batch numbers) by Producers goroutines.
type Src struct {
	Sizes     []int
	Arrival   []int
	Producers int
}

// Stage is one combinator application.
type Stage struct {
	Op      string // worker, slicew, filter, filterand, filterempty, rebatch, sort, limitmem, pool, concat, fragments, complete
	Kind    int    // worker kind: 0 keep, 1 drop, 2 duplicate
	Mod     int    // record selector: idx % Mod == Rem
	Rem     int
	Size    int // batch size parameter
	Workers int
	Extra   []Src // pool / concat: the other streams
	// fragments
	MinSize, Length, Overlap int
}

// Final is the terminal consumer.
type Final struct {
	Op    string // drain, divide, distribute, pair
	Mod   int
	Rem   int
	Size  int
	Mate  *Src // pair: the second stream (same number of records as the main stream)
	Twice bool // pair: also drain PairedWith()
}

type Case struct {
	Main    Src
	Files   []Src // when non-empty the source is ReadSequencesBatchFromFiles over these "files"
	Readers int
	Stages  []Stage
	Final   Final
	LenBase int // record i has a sequence of LenBase + i%LenMod nucleotides
	LenMod  int
	Jitter  int // max microseconds of the push jitter (0 = off)
	Procs   int // GOMAXPROCS during the run (0 = unchanged)
}

// ---------------------------------------------------------------- records

type mrec struct {
	ID  string
	Seq string
}

func recSeq(idx, n int) string {
	b := make([]byte, n)
	x := uint32(idx)*2654435761 + 12345
	for i := range b {
		x = x*1664525 + 1013904223
		b[i] = "acgt"[(x>>24)&3]
	}
	return string(b)
}

func (c *Case) recLen(idx int) int {
	lm := c.LenMod
	if lm <= 0 {
		lm = 1
	}
	return max(1, c.LenBase) + idx%lm
}

func (c *Case) newRec(idx int) (*obiseq.BioSequence, mrec) {
	id := "r" + strconv.Itoa(idx)
	s := recSeq(idx, c.recLen(idx))
	bs := obiseq.NewBioSequence(id, []byte(s), "")
	bs.SetAttribute("k", idx%3)
	return bs, mrec{id, s}
}

// idxOf recovers the record number from an identifier ("r12", "r12_d", "r12_sub[1..5]").
func idxOf(id string) int {
	if len(id) < 2 || id[0] != 'r' {
		return -1
	}
	end := 1
	for end < len(id) && id[end] >= '0' && id[end] <= '9' {
		end++
	}
	n, err := strconv.Atoi(id[1:end])
	if err != nil {
		return -1
	}
	return n
}

func selected(id string, mod, rem int) bool {
	if mod <= 0 {
		return true
	}
	return idxOf(id)%mod == rem%mod
}

// ---------------------------------------------------------------- building the real pipeline

type builder struct {
	c       *Case
	nextIdx int
	wg      sync.WaitGroup // producers
}

// source creates the real iterator of a Src and returns the model records in logical order.
func (b *builder) source(s Src) (obiiter.IBioSequence, []mrec) {
	it := obiiter.MakeIBioSequence()
	batches := make([]obiseq.BioSequenceSlice, len(s.Sizes))
	var model []mrec
	for k, n := range s.Sizes {
		sl := obiseq.MakeBioSequenceSlice()
		for j := 0; j < n; j++ {
			bs, m := b.c.newRec(b.nextIdx)
			b.nextIdx++
			sl = append(sl, bs)
			model = append(model, m)
		}
		if sl == nil {
			sl = obiseq.BioSequenceSlice{}
		}
		batches[k] = sl
	}
	np := max(1, s.Producers)
	it.Add(np)
	for p := 0; p < np; p++ {
		p := p
		go func() {
			defer it.Done()
			for i, k := range s.Arrival {
				if i%np == p {
					it.Push(obiiter.MakeBioSequenceBatch("src", k, batches[k]))
				}
			}
		}()
	}
	go it.WaitAndClose()
	return it, model
}

type mstream struct {
	recs       []mrec
	ordered    bool
	fragmented bool // recs are the un-cut originals; the real stream holds their fragments
	overlap    int
	maxFrag    int
	minSize    int
}

func filterModel(in []mrec, keep func(mrec) bool) []mrec {
	out := make([]mrec, 0, len(in))
	for _, r := range in {
		if keep(r) {
			out = append(out, r)
		}
	}
	return out
}

func (b *builder) apply(it obiiter.IBioSequence, m mstream, st Stage) (obiiter.IBioSequence, mstream, error) {
	nw := max(1, st.Workers)
	switch st.Op {
	case "worker", "slicew":
		kind, mod, rem := st.Kind, st.Mod, st.Rem
		w := func(s *obiseq.BioSequence) (obiseq.BioSequenceSlice, error) {
			sel := selected(s.Id(), mod, rem)
			switch {
			case kind == 1 && sel:
				return obiseq.BioSequenceSlice{}, nil
			case kind == 2 && sel:
				d := obiseq.NewBioSequence(s.Id()+"_d", []byte(s.String()), "")
				return obiseq.BioSequenceSlice{s, d}, nil
			}
			s.SetAttribute("seen", true)
			return obiseq.BioSequenceSlice{s}, nil
		}
		if st.Op == "worker" {
			it = it.MakeIWorker(w, false, nw)
		} else {
			it = it.MakeISliceWorker(obiseq.SeqToSliceWorker(w, false), false, nw)
		}
		var out []mrec
		for _, r := range m.recs {
			sel := selected(r.ID, mod, rem)
			switch {
			case kind == 1 && sel:
			case kind == 2 && sel:
				out = append(out, r, mrec{r.ID + "_d", r.Seq})
			default:
				out = append(out, r)
			}
		}
		m.recs = out
	case "filter", "filterand":
		mod, rem := st.Mod, st.Rem
		pred := func(s *obiseq.BioSequence) bool { return selected(s.Id(), mod, rem) }
		if st.Op == "filter" {
			it = it.FilterOn(pred, max(1, st.Size), nw)
		} else {
			it = it.FilterAnd(pred, max(1, st.Size), nw)
		}
		m.recs = filterModel(m.recs, func(r mrec) bool { return selected(r.ID, mod, rem) })
	case "filterempty":
		it = it.FilterEmpty()
	case "rebatch":
		it = it.Rebatch(max(1, st.Size))
	case "sort":
		it = it.SortBatches()
	case "limitmem":
		it = it.LimitMemory(0.999)
	case "complete":
		it = it.CompleteFileIterator()
	case "pool", "concat":
		others := make([]obiiter.IBioSequence, 0, len(st.Extra))
		for _, e := range st.Extra {
			oi, om := b.source(e)
			others = append(others, oi)
			m.recs = append(m.recs, om...)
		}
		if st.Op == "pool" {
			it = it.Pool(others...)
			if len(others) > 0 {
				m.ordered = false
			}
		} else {
			it = it.Concat(others...)
		}
	case "fragments":
		step := st.Length - st.Overlap
		if step <= 0 || m.fragmented {
			return it, m, fmt.Errorf("bad fragments stage")
		}
		it = it.Pipe(obiiter.IFragments(st.MinSize, st.Length, st.Overlap, max(1, st.Size), nw))
		m.fragmented = true
		m.overlap = st.Overlap
		m.maxFrag = st.Length + step
		m.minSize = st.MinSize
	default:
		return it, m, fmt.Errorf("unknown stage %q", st.Op)
	}
	return it, m, nil
}

// ---------------------------------------------------------------- draining

type gotBatch struct {
	Order int
	Recs  []mrec
	Mates []string // ids of the paired records, when paired
}

type drained struct {
	name    string
	batches []gotBatch // arrival order
}

func drainInto(it obiiter.IBioSequence, d *drained, wg *sync.WaitGroup, withMates bool) {
	defer wg.Done()
	for it.Next() {
		b := it.Get()
		g := gotBatch{Order: b.Order()}
		for _, s := range b.Slice() {
			if s == nil {
				g.Recs = append(g.Recs, mrec{"<nil>", ""})
				continue
			}
			g.Recs = append(g.Recs, mrec{s.Id(), s.String()})
			if withMates {
				if p := s.PairedWith(); p != nil {
					g.Mates = append(g.Mates, p.Id())
				} else {
					g.Mates = append(g.Mates, "<unpaired>")
				}
			}
		}
		d.batches = append(d.batches, g)
	}
}

// flatten checks the batch numbering (exactly 0..m-1) and returns the records in batch-number order.
func (d *drained) flatten() ([]mrec, []string, error) {
	seen := map[int]int{}
	for _, b := range d.batches {
		seen[b.Order]++
	}
	for o, n := range seen {
		if n > 1 {
			return nil, nil, fmt.Errorf("output %s: batch number %d delivered %d times (arrival orders %v)", d.name, o, n, d.orders())
		}
		if o < 0 || o >= len(d.batches) {
			return nil, nil, fmt.Errorf("output %s: batch numbers are not 0..%d: %v", d.name, len(d.batches)-1, d.orders())
		}
	}
	bs := append([]gotBatch(nil), d.batches...)
	sort.SliceStable(bs, func(i, j int) bool { return bs[i].Order < bs[j].Order })
	var recs []mrec
	var mates []string
	for _, b := range bs {
		recs = append(recs, b.Recs...)
		mates = append(mates, b.Mates...)
	}
	return recs, mates, nil
}

func (d *drained) orders() []int {
	o := make([]int, len(d.batches))
	for i, b := range d.batches {
		o[i] = b.Order
	}
	return o
}

func ids(r []mrec) []string {
	out := make([]string, len(r))
	for i := range r {
		out[i] = r[i].ID
	}
	return out
}

func short(ids []string) string {
	if len(ids) > 60 {
		return fmt.Sprintf("%v … (%d)", ids[:60], len(ids))
	}
	return fmt.Sprint(ids)
}

// compare got with the model stream.
func compare(name string, got []mrec, m mstream) error {
	if m.fragmented {
		return compareFragments(name, got, m)
	}
	for _, r := range got {
		if strings.ContainsRune(r.Seq, '!') {
			return fmt.Errorf("output %s: record %s carries recycled (poisoned) bytes: %q", name, r.ID, r.Seq)
		}
	}
	if m.ordered {
		if len(got) != len(m.recs) {
			return fmt.Errorf("output %s: %d records delivered, %d expected\n got  %s\n want %s", name, len(got), len(m.recs), short(ids(got)), short(ids(m.recs)))
		}
		for i := range got {
			if got[i] != m.recs[i] {
				return fmt.Errorf("output %s: record at rank %d is %v, expected %v\n got  %s\n want %s", name, i, got[i], m.recs[i], short(ids(got)), short(ids(m.recs)))
			}
		}
		return nil
	}
	cnt := map[mrec]int{}
	for _, r := range m.recs {
		cnt[r]++
	}
	for _, r := range got {
		cnt[r]--
	}
	for r, n := range cnt {
		if n > 0 {
			return fmt.Errorf("output %s: record %s lost (%d copies missing)", name, r.ID, n)
		}
		if n < 0 {
			return fmt.Errorf("output %s: record %s delivered %d times too many", name, r.ID, -n)
		}
	}
	return nil
}

func compareFragments(name string, got []mrec, m mstream) error {
	// group consecutive fragments of the same original record
	i := 0
	for _, want := range m.recs {
		if i >= len(got) {
			return fmt.Errorf("output %s: fragments of record %s are missing", name, want.ID)
		}
		if len(want.Seq) <= m.minSize {
			if got[i] != want {
				return fmt.Errorf("output %s: short record %v expected unchanged, got %v", name, want, got[i])
			}
			i++
			continue
		}
		if idxOf(got[i].ID) != idxOf(want.ID) {
			return fmt.Errorf("output %s: expected fragments of %s, found %s", name, want.ID, got[i].ID)
		}
		re := got[i].Seq
		if len(got[i].Seq) > m.maxFrag {
			return fmt.Errorf("output %s: fragment %s has %d nucleotides (> length+step = %d)", name, got[i].ID, len(got[i].Seq), m.maxFrag)
		}
		i++
		for i < len(got) && idxOf(got[i].ID) == idxOf(want.ID) && len(re) < len(want.Seq) {
			f := got[i].Seq
			if len(f) > m.maxFrag {
				return fmt.Errorf("output %s: fragment %s has %d nucleotides (> length+step = %d)", name, got[i].ID, len(f), m.maxFrag)
			}
			if len(f) <= m.overlap || re[len(re)-m.overlap:] != f[:m.overlap] {
				return fmt.Errorf("output %s: fragment %s does not overlap its predecessor by %d nucleotides", name, got[i].ID, m.overlap)
			}
			re += f[m.overlap:]
			i++
		}
		if re != want.Seq {
			return fmt.Errorf("output %s: fragments of %s glue back to %q, the record is %q", name, want.ID, re, want.Seq)
		}
	}
	if i != len(got) {
		return fmt.Errorf("output %s: %d unexpected extra records, first %s", name, len(got)-i, got[i].ID)
	}
	return nil
}

// ---------------------------------------------------------------- one execution

var runLock sync.Mutex // cases mutate package-level option state (batch size, jitter, GOMAXPROCS)

type hang struct{ dump string }

func (h hang) Error() string { return "pipeline did not terminate:\n" + h.dump }

func runOnce(c Case) error {
	runLock.Lock()
	defer runLock.Unlock()
	fatal.Install()
	if c.Jitter > 0 {
		obiiter.VerifSetJitter(uint64(c.Jitter)*7919+1, uint64(c.Jitter))
		defer obiiter.VerifSetJitter(0, 0)
	}
	if c.Procs > 0 {
		defer runtime.GOMAXPROCS(runtime.GOMAXPROCS(c.Procs))
	}
	oldBatch := obioptions.CLIBatchSize()
	defer obioptions.SetBatchSize(oldBatch)

	b := &builder{c: &c}
	var it obiiter.IBioSequence
	m := mstream{ordered: true}
	fatalsBefore := fatal.Count()

	if len(c.Files) > 0 {
		names := make([]string, len(c.Files))
		var mu sync.Mutex
		// records are numbered in file-list order so that the model does not depend on open order
		iters := map[string]obiiter.IBioSequence{}
		for i, f := range c.Files {
			names[i] = fmt.Sprintf("file%d", i)
			fi, fm := b.source(f)
			iters[names[i]] = fi
			m.recs = append(m.recs, fm...)
		}
		reader := func(name string, _ ...obiformats.WithOption) (obiiter.IBioSequence, error) {
			mu.Lock()
			defer mu.Unlock()
			return iters[name], nil
		}
		it = obiformats.ReadSequencesBatchFromFiles(names, reader, max(1, c.Readers))
		if c.Readers > 1 {
			m.ordered = false
		}
	} else {
		var mm []mrec
		it, mm = b.source(c.Main)
		m.recs = mm
	}

	for _, st := range c.Stages {
		var err error
		it, m, err = b.apply(it, m, st)
		if err != nil {
			return err
		}
	}

	var outs []*drained
	var models []mstream
	var wg sync.WaitGroup
	var mateModel []string
	fin := c.Final
	switch fin.Op {
	case "", "drain":
		d := &drained{name: "out"}
		outs, models = append(outs, d), append(models, m)
		wg.Add(1)
		go drainInto(it, d, &wg, false)
	case "divide":
		mod, rem := fin.Mod, fin.Rem
		t, f := it.DivideOn(func(s *obiseq.BioSequence) bool { return selected(s.Id(), mod, rem) }, max(1, fin.Size))
		dt, df := &drained{name: "true"}, &drained{name: "false"}
		mt, mf := m, m
		mt.recs = filterModel(m.recs, func(r mrec) bool { return selected(r.ID, mod, rem) })
		mf.recs = filterModel(m.recs, func(r mrec) bool { return !selected(r.ID, mod, rem) })
		outs, models = append(outs, dt, df), append(models, mt, mf)
		wg.Add(2)
		go drainInto(t, dt, &wg, false)
		go drainInto(f, df, &wg, false)
	case "distribute":
		cls := obiseq.AnnotationClassifier("k", "NA")
		dist := it.Distribute(cls, max(1, fin.Size))
		var mu sync.Mutex
		wg.Add(1)
		go func() {
			defer wg.Done()
			for code := range dist.News() {
				out, err := dist.Outputs(code)
				if err != nil {
					continue
				}
				d := &drained{name: "key=" + cls.Value(code)}
				mu.Lock()
				outs = append(outs, d)
				mu.Unlock()
				wg.Add(1)
				go drainInto(out, d, &wg, false)
			}
		}()
	case "pair":
		obioptions.SetBatchSize(max(1, fin.Size))
		mateIt, mateRecs := b.source(*fin.Mate)
		paired := it.PairTo(mateIt)
		mateModel = ids(mateRecs)
		d := &drained{name: "paired"}
		outs, models = append(outs, d), append(models, m)
		if fin.Twice {
			// the writers' way: the forward batches are read once and the mates are taken from them
			d2 := &drained{name: "mates"}
			m2 := m
			m2.recs = mateRecs
			outs, models = append(outs, d2), append(models, m2)
			wg.Add(1)
			go func() {
				defer wg.Done()
				for paired.Next() {
					bt := paired.Get()
					g := gotBatch{Order: bt.Order()}
					g2 := gotBatch{Order: bt.Order()}
					for _, s := range bt.Slice() {
						g.Recs = append(g.Recs, mrec{s.Id(), s.String()})
						if p := s.PairedWith(); p != nil {
							g.Mates = append(g.Mates, p.Id())
						} else {
							g.Mates = append(g.Mates, "<unpaired>")
						}
					}
					pw := bt.PairedWith()
					for _, s := range pw.Slice() {
						g2.Recs = append(g2.Recs, mrec{s.Id(), s.String()})
					}
					d.batches = append(d.batches, g)
					d2.batches = append(d2.batches, g2)
				}
			}()
		} else {
			wg.Add(1)
			go drainInto(paired, d, &wg, true)
		}
	default:
		return fmt.Errorf("unknown final %q", fin.Op)
	}

	done := make(chan struct{})
	go func() { wg.Wait(); close(done) }()
	select {
	case <-done:
	case <-time.After(hangLimit(c)):
		if fatal.Count() != fatalsBefore {
			return fmt.Errorf("a library goroutine called log.Fatal during the run: %s", fatal.LastMessage())
		}
		buf := make([]byte, 1<<20)
		buf = buf[:runtime.Stack(buf, true)]
		return hang{dump: string(buf)}
	}
	if fatal.Count() != fatalsBefore {
		return fmt.Errorf("a library goroutine called log.Fatal during the run: %s", fatal.LastMessage())
	}

	if fin.Op == "distribute" {
		// every record in exactly one output, chosen by its key; order preserved inside an output
		byKey := map[string][]mrec{}
		for _, r := range m.recs {
			k := "key=" + strconv.Itoa(idxOf(r.ID)%3)
			if strings.HasSuffix(r.ID, "_d") {
				k = "key=NA"
			}
			byKey[k] = append(byKey[k], r)
		}
		seen := map[string]bool{}
		for _, d := range outs {
			if seen[d.name] {
				return fmt.Errorf("distribute: two outputs for %s", d.name)
			}
			seen[d.name] = true
			got, _, err := d.flatten()
			if err != nil {
				return err
			}
			mk := m
			mk.recs = byKey[d.name]
			if err := compare(d.name, got, mk); err != nil {
				return err
			}
		}
		for k, v := range byKey {
			if !seen[k] && len(v) > 0 {
				return fmt.Errorf("distribute: no output for %s (%d records lost)", k, len(v))
			}
		}
		return nil
	}

	for i, d := range outs {
		got, mates, err := d.flatten()
		if err != nil {
			return err
		}
		if err := compare(d.name, got, models[i]); err != nil {
			return err
		}
		if fin.Op == "pair" && d.name == "paired" {
			if len(mates) != len(mateModel) {
				return fmt.Errorf("pairing: %d mates for %d expected", len(mates), len(mateModel))
			}
			for j := range mates {
				if mates[j] != mateModel[j] {
					return fmt.Errorf("pairing: record %s at rank %d is linked to %s, its mate is %s", got[j].ID, j, mates[j], mateModel[j])
				}
			}
		}
	}
	return nil
}

// hangLimit is the time without completion after which a drain counts as not
// terminating: 10 s (about 10^4 times the normal duration of a small case) plus
// an allowance proportional to the number of batch pushes of the case.
func hangLimit(c Case) time.Duration {
	n := len(c.Main.Sizes)
	for _, f := range c.Files {
		n += len(f.Sizes)
	}
	recs := c.Main.total()
	for _, st := range c.Stages {
		for _, e := range st.Extra {
			n += len(e.Sizes)
			recs += e.total()
		}
	}
	pushes := (n + recs*4) * (2 + len(c.Stages))
	return 10*time.Second + time.Duration(pushes)*20*time.Millisecond
}

// checkPipeline runs the case; a non-terminating drain is a violation only when
// it reproduces three times in a row.
func checkPipeline(c Case) error {
	var last error
	for attempt := 0; attempt < 3; attempt++ {
		err := runOnce(c)
		if _, isHang := err.(hang); !isHang {
			if attempt > 0 && err == nil {
				evid.Class("timeout_not_reproduced", 1)
			}
			return err
		}
		last = err
	}
	return last
}

func TestMain(m *testing.M) {
	if os.Getenv("VERIF_DEBUG") == "" {
		fatal.Install()
	}
	registerTests()
	evid.Main(m, "C03")
}
