package c03

import (
	"fmt"
	"os"
	"path/filepath"
	"strconv"
	"strings"
	"testing"
	"time"

	"pgregory.net/rapid"

	"verifharness/internal/evid"
	"verifharness/internal/ref"
	"verifharness/internal/run"
)

// End-to-end with a user-written worker: obiscript -S <script.lua>.
//
// The Lua function worker(sequence) is called once per record by one of the
// --max-cpu worker goroutines (each with its own interpreter) and answers
//   - the sequence itself (possibly modified)      -> the record is delivered,
//   - nil / nothing                                -> the record is filtered out,
//   - a BioSequenceSlice of k >= 0 sequences       -> those k records take its place.
// Whatever the script answers, the stream around it obeys C03: stdout holds
// exactly the records the script selected, in input order (files in command
// line order, the records of one slice in slice order), the command exits 0
// and terminates - for every input size, rejection rate, --max-cpu, --batch-size.
//
// Domain decisions
//   * Scripts are generated from the shapes of `obiscript --template` and of the
//     release notes: a predicate on sequence:len() or on a numeric annotation,
//     and an action (return the sequence / a renamed and annotated sequence / a
//     BioSequenceSlice built with push()).  A slice never holds the same sequence
//     object twice (copies are made with subsequence(0, len) and renamed): what a
//     doubly referenced record becomes is not decided by the property.
//   * begin() / finish() only touch obicontext: the template's print() in finish()
//     writes on stdout after (or while) the records are written, and finish()
//     runs on a goroutine the command does not wait for; neither is judged here.
//   * Only id and nucleotides are compared (annotations are C04/C05 matters).

type scriptCase struct {
	Files []fileSpec
	// predicate: "all" (every record selected), "len" (len >= MinLen), "rank" (rank % Mod < Keep)
	Pred   string
	MinLen int
	Mod    int
	Keep   int
	// what the script does with a rejected record: 0 `return nil`, 1 bare `return`, 2 falls off the end of worker()
	NilStyle int
	// action on a selected record: "same", "modify" (new id + annotation), "slice" (k = (rank%SliceMod+SliceOff)%4 sequences)
	Action   string
	SliceMod int
	SliceOff int
	Begin    bool // begin() hook that initialises a shared counter
	Count    bool // worker() increments the shared counter (needs Begin)
	Finish   bool // finish() hook reading the counter
	MaxCPU   int
	Batch    int
	Jitter   int
	FastqIn  bool
}

func init() {
	evid.Reg("script", checkScript)
	evid.Tests(evid.Spec{Name: "TestPropScripts", Kind: "rapid", Quick: 640, Thorough: 5000, QuickShards: 16, ThoroughShards: 16})
	evid.Commands("obiscript")
	evid.Note("rule_scripts", "obiscript -S <generated Lua script>: worker() = predicate (none / sequence:len() >= L / annotation rank % M < K) + answer for a rejected record (return nil / bare return / falling off the end) + action on a selected one (the sequence / renamed+annotated sequence / BioSequenceSlice of 0..3 sequences built with push and subsequence), optional begin()/finish() hooks and a shared obicontext counter; 1..3 generated FASTA/FASTQ files from 0 records up to 30000..100000 records (quick; ..250000 thorough) with rejection rates 0..100 %, --max-cpu 1..16, --batch-size, push jitter. Oracle: the harness evaluates the same predicate/action on its own copy of the records: stdout ids and nucleotides = expected list in input order, exit 0, terminates. Non-trivial = the script rejects, renames or multiplies at least one record and the input spans several batches. Distinct = hash of the whole case.")
}

func (c scriptCase) selected(rank, length int) bool {
	switch c.Pred {
	case "len":
		return length >= c.MinLen
	case "rank":
		return rank%max(1, c.Mod) < c.Keep
	}
	return true
}

func (c scriptCase) copies(rank int) int { return (rank%max(1, c.SliceMod) + c.SliceOff) % 4 }

// outcome of the script on one record, by the harness
func (c scriptCase) outcome(rank int, r mrec) []mrec {
	if !c.selected(rank, len(r.Seq)) {
		return nil
	}
	switch c.Action {
	case "modify":
		return []mrec{{"m_" + r.ID, r.Seq}}
	case "slice":
		var out []mrec
		k := c.copies(rank)
		if k >= 1 {
			out = append(out, r)
		}
		for i := 2; i <= k; i++ {
			out = append(out, mrec{fmt.Sprintf("%s_c%d", r.ID, i), r.Seq})
		}
		return out
	}
	return []mrec{r}
}

func (c scriptCase) lua() string {
	var b strings.Builder
	if c.Begin {
		b.WriteString("function begin()\n    obicontext.item(\"c03_seen\", 0)\nend\n\n")
	}
	b.WriteString("function worker(sequence)\n")
	if c.Begin && c.Count {
		b.WriteString("    obicontext.inc(\"c03_seen\")\n")
	}
	pred := "true"
	switch c.Pred {
	case "len":
		pred = fmt.Sprintf("sequence:len() >= %d", c.MinLen)
	case "rank":
		pred = fmt.Sprintf("sequence:attribute(\"rank\") %% %d < %d", max(1, c.Mod), c.Keep)
	}
	var act string
	switch c.Action {
	case "modify":
		act = "sequence:attribute(\"c03_len\", sequence:len())\nsequence:id(\"m_\" .. sequence:id())\nreturn sequence\n"
	case "slice":
		act = fmt.Sprintf("local k = (sequence:attribute(\"rank\") %% %d + %d) %% 4\n", max(1, c.SliceMod), c.SliceOff) +
			"local out = BioSequenceSlice.new()\n" +
			"if k >= 1 then\n    out:push(sequence)\nend\n" +
			"for i = 2, k do\n    local copy = sequence:subsequence(0, sequence:len())\n    copy:id(sequence:id() .. \"_c\" .. i)\n    out:push(copy)\nend\n" +
			"return out\n"
	default:
		act = "return sequence\n"
	}
	indent := func(s, pad string) string {
		var o strings.Builder
		for _, l := range strings.Split(strings.TrimRight(s, "\n"), "\n") {
			o.WriteString(pad + l + "\n")
		}
		return o.String()
	}
	switch c.NilStyle {
	case 0, 1:
		ret := "return nil"
		if c.NilStyle == 1 {
			ret = "return"
		}
		fmt.Fprintf(&b, "    if not (%s) then\n        %s\n    end\n", pred, ret)
		b.WriteString(indent(act, "    "))
	default:
		fmt.Fprintf(&b, "    if %s then\n", pred)
		b.WriteString(indent(act, "        "))
		b.WriteString("    end\n")
	}
	b.WriteString("end\n")
	if c.Finish {
		b.WriteString("\nfunction finish()\n    local n = obicontext.item(\"c03_seen\")\nend\n")
	}
	return b.String()
}

// expected output and the figures used by the classes
func (c scriptCase) expected() (want []mrec, total, rejected, changed int) {
	for i, f := range c.Files {
		for j := 0; j < f.N; j++ {
			r := mrec{fmt.Sprintf("f%d_%d", i, j), ""}
			n := f.recLen(j)
			total++
			if !c.selected(j, n) {
				rejected++
				continue
			}
			r.Seq = recSeq(i*1000003+j, n)
			out := c.outcome(j, r)
			if len(out) != 1 || out[0].ID != r.ID {
				changed++
			}
			want = append(want, out...)
		}
	}
	return
}

func checkScript(c scriptCase) error {
	dir, err := os.MkdirTemp(run.WorkDir(), "c03lua")
	if err != nil {
		return nil
	}
	defer os.RemoveAll(dir)
	script := filepath.Join(dir, "worker.lua")
	source := c.lua()
	if os.WriteFile(script, []byte(source), 0o644) != nil {
		return nil
	}
	args := []string{"-S", script}
	if c.MaxCPU > 0 {
		args = append(args, "--max-cpu", strconv.Itoa(c.MaxCPU))
	}
	if c.Batch > 0 {
		args = append(args, "--batch-size", strconv.Itoa(c.Batch))
	}
	ext := ".fasta"
	if c.FastqIn {
		ext = ".fastq"
	}
	for i, f := range c.Files {
		data, _ := renderFile(i, f, c.FastqIn)
		p := filepath.Join(dir, fmt.Sprintf("in%d%s", i, ext))
		if os.WriteFile(p, data, 0o644) != nil {
			return nil
		}
		args = append(args, p)
	}
	want, total, rejected, _ := c.expected()
	var env []string
	if c.Jitter > 0 {
		env = append(env, fmt.Sprintf("VERIF_JITTER=%d:%d", c.Jitter*31+1, c.Jitter))
	}
	var res run.Result
	for attempt := 0; attempt < 3; attempt++ {
		res = run.Cmd(run.Opt{Env: env, Timeout: 90 * time.Second}, "obiscript", args...)
		if !res.TimedOut {
			break
		}
	}
	what := fmt.Sprintf("obiscript %v (%d records, the script rejects %d of them)\n--- script\n%s---\n", args, total, rejected, source)
	if res.TimedOut {
		return fmt.Errorf("%sdid not terminate within 90 s, three times in a row", what)
	}
	if res.ResourceExhausted() {
		evid.Class("resource_exhaustion_inconclusive", 1)
		return nil
	}
	var got []ref.Rec
	if res.Exit == 0 || len(res.Stdout) > 0 {
		var perr error
		if c.FastqIn {
			got, perr = ref.ParseFastq(res.Stdout)
		} else {
			got, perr = ref.ParseFasta(res.Stdout)
		}
		if perr != nil && res.Exit == 0 {
			return fmt.Errorf("%soutput is not well formed: %v", what, perr)
		}
	}
	if res.Exit != 0 {
		return fmt.Errorf("%sexited with status %d after writing %d of the %d records it must deliver: %s", what, res.Exit, len(got), len(want), tail(res.Stderr))
	}
	if len(got) != len(want) {
		return fmt.Errorf("%s%d records on stdout, %d expected", what, len(got), len(want))
	}
	for i := range got {
		if got[i].ID != want[i].ID || got[i].Seq != want[i].Seq {
			return fmt.Errorf("%srecord at rank %d is %s (%d nt), expected %s (%d nt)", what, i, got[i].ID, len(got[i].Seq), want[i].ID, len(want[i].Seq))
		}
	}
	return nil
}

func TestPropScripts(t *testing.T) {
	rapid.Check(t, func(rt *rapid.T) {
		var c scriptCase
		big := rapid.IntRange(0, 7).Draw(rt, "big") == 0 // tens of thousands of records through the interpreters
		nf := rapid.IntRange(1, 3).Draw(rt, "nfiles")
		if big {
			nf = rapid.IntRange(1, 2).Draw(rt, "nfiles_big")
			left := rapid.IntRange(30000, evid.Pick(100000, 250000)).Draw(rt, "nrec_big")
			for i := 0; i < nf; i++ {
				n := left
				if i < nf-1 {
					n = rapid.IntRange(0, left).Draw(rt, "nrec_first")
				}
				left -= n
				c.Files = append(c.Files, fileSpec{N: n, MinLen: rapid.IntRange(10, 40).Draw(rt, "minlen_big"), Spread: rapid.IntRange(1, 50).Draw(rt, "spread_big")})
			}
		} else {
			for i := 0; i < nf; i++ {
				c.Files = append(c.Files, fileSpec{N: rapid.IntRange(0, 40).Draw(rt, "nrec"), MinLen: rapid.IntRange(1, 70).Draw(rt, "minlen"), Spread: rapid.IntRange(1, 80).Draw(rt, "spread")})
			}
		}
		c.Pred = rapid.SampledFrom([]string{"all", "len", "rank", "len", "rank"}).Draw(rt, "pred")
		// thresholds by construction over the whole range of rejection rates, 0 % and 100 % included
		f0 := c.Files[0]
		c.MinLen = rapid.IntRange(f0.MinLen, f0.MinLen+max(1, f0.Spread)).Draw(rt, "len_threshold")
		c.Mod = rapid.SampledFrom([]int{1, 2, 3, 10, 50, 100}).Draw(rt, "rank_mod")
		c.Keep = rapid.SampledFrom([]int{0, 1, 1, c.Mod / 2, c.Mod - 1, c.Mod}).Draw(rt, "rank_keep")
		c.Keep = max(0, min(c.Keep, c.Mod))
		c.NilStyle = rapid.IntRange(0, 2).Draw(rt, "nil_style")
		c.Action = rapid.SampledFrom([]string{"same", "same", "modify", "slice"}).Draw(rt, "action")
		c.SliceMod = rapid.IntRange(1, 4).Draw(rt, "slice_mod")
		c.SliceOff = rapid.IntRange(0, 3).Draw(rt, "slice_off")
		c.Begin = rapid.Bool().Draw(rt, "begin")
		c.Count = c.Begin && rapid.Bool().Draw(rt, "count")
		c.Finish = rapid.Bool().Draw(rt, "finish")
		c.MaxCPU = rapid.SampledFrom([]int{0, 1, 1, 2, 3, 4, 8, 16}).Draw(rt, "maxcpu")
		if big {
			c.Batch = rapid.SampledFrom([]int{0, 0, 100, 1000, 5000}).Draw(rt, "batch_big")
		} else {
			c.Batch = rapid.SampledFrom([]int{0, 1, 2, 3, 7, 100}).Draw(rt, "batch")
			c.Jitter = rapid.SampledFrom([]int{0, 0, 50, 500}).Draw(rt, "jitter")
		}
		c.FastqIn = rapid.IntRange(0, 3).Draw(rt, "fastq") == 0

		_, total, rejected, changed := c.expected()
		cl := []string{"script_pred:" + c.Pred, "script_action:" + c.Action}
		if c.Pred != "all" {
			cl = append(cl, fmt.Sprintf("script_nil_style:%d", c.NilStyle))
		}
		switch {
		case total == 0:
			cl = append(cl, "empty_input")
		case rejected == 0:
			cl = append(cl, "script_rejects:none")
		case rejected == total:
			cl = append(cl, "script_rejects:all")
		case 2*rejected >= total:
			cl = append(cl, "script_rejects:half_or_more")
		default:
			cl = append(cl, "script_rejects:less_than_half")
		}
		if big {
			cl = append(cl, "script_big_input")
		}
		workers := c.MaxCPU
		if workers == 0 {
			workers = 16
		}
		if rejected/workers > 5000 {
			cl = append(cl, "script_over_5000_rejected_per_interpreter")
		}
		if rejected/workers > 20000 {
			cl = append(cl, "script_over_20000_rejected_per_interpreter")
		}
		if c.Begin || c.Finish {
			cl = append(cl, "script_hooks")
		}
		if c.MaxCPU == 1 {
			cl = append(cl, "script_single_worker")
		}
		batch := c.Batch
		if batch == 0 {
			batch = 2000
		}
		nt := rejected+changed > 0 && total > batch
		evid.Eval("script", evid.Hash(fmt.Sprintf("%+v", c)), nt, c, cl...)
		if err := checkScript(c); err != nil {
			evid.Fail(rt, "script", c, err)
		}
	})
}
