#!/bin/bash
# usage: tools_seed_confirm_sh.sh <seed dir (…/SEED/mN)> [script name]
# Confirms a shell demonstration (demo.sh builds the commands from the worktree it lives in): exits 0 on the
# clean worktree, non-zero with patch.diff applied.  The seed's own worktree is used and restored.
SD=$(readlink -f $1); S=${2:-demo.sh}
WT=$(dirname $(dirname $SD))
cd $WT || exit 2
git checkout -q -- . 
timeout 1800 bash $SD/$S > /tmp/confirm-sh-clean.log 2>&1; c=$?
git apply $SD/patch.diff || { echo "patch does not apply"; exit 3; }
timeout 1800 bash $SD/$S > /tmp/confirm-sh-patched.log 2>&1; p=$?
git checkout -q -- .
echo "CONFIRM $(basename $WT)/$(basename $SD) $S: clean rc=$c (want 0), with patch rc=$p (want !=0)"
