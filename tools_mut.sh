#!/bin/bash
# usage: tools_mut.sh <ID> <name> <file> <python-replace-old> <python-replace-new>   (sensitivity experiment in a scratch worktree)
set -e
ID=$1; NAME=$2; FILE=$3; OLD=$4; NEW=$5
WT=/tmp/wt-mut-$ID-$NAME
git -C /repo worktree add -q --detach $WT HEAD
trap "git -C /repo worktree remove --force $WT; rm -rf /tmp/alt-$ID-$NAME" EXIT
python3 - "$WT/$FILE" "$OLD" "$NEW" <<'PY'
import sys
p,old,new=sys.argv[1:4]
s=open(p).read()
assert s.count(old)>=1, "pattern not found"
s=s.replace(old,new,1)
open(p,'w').write(s)
PY
cd /verif
VERIF_REPO=$WT VERIF_ALT_OUT=/tmp/alt-$ID-$NAME timeout 900 ./check $ID ${TIER:-quick} > /tmp/mut-$ID-$NAME.log 2>&1 && rc=0 || rc=$?
echo "MUTATION $ID/$NAME rc=$rc $(grep -c VIOLATION /tmp/mut-$ID-$NAME.log) violation lines; first: $(grep -m1 '^----' /tmp/mut-$ID-$NAME.log | cut -c1-200)"
