#!/usr/bin/env python3
"""usage: manifest_add.py <ID> <technique> <level text> <level note>   — registers/updates a check entry and removes it from not_applicable"""
import json, sys
pid, technique, text, note = sys.argv[1:5]
m = json.load(open('/verif/MANIFEST.json'))
entry = {
 "property_id": pid, "quick_cmd": "./check %s quick" % pid, "thorough_cmd": "./check %s thorough" % pid,
 "evidence_file": "evidence/%s.json" % pid, "replay_cmd_template": "./check %s --replay {path}" % pid, "engine": "rapid-harness",
 "level_claimed": {"category": "exploration", "text": text, "design_ref": "DESIGN.md §5 %s" % pid},
 "level_note": note, "technique": technique}
m["checks"] = [c for c in m["checks"] if c["property_id"] != pid] + [entry]
m["checks"].sort(key=lambda c: c["property_id"])
m["not_applicable"] = [n for n in m.get("not_applicable", []) if n["property_id"] != pid]
for e in m["engines"]:
    if e["name"] == "rapid-harness":
        e["serves_properties"] = sorted(set(e["serves_properties"]) | {pid})
hooks = [l.split()[0] for l in __import__('subprocess').run(["git","-C","/repo","log","--format=%h %s"],capture_output=True,text=True).stdout.splitlines() if " verif hook" in l]
m["hooks"]["source_commits"] = list(reversed(hooks))
json.dump(m, open('/verif/MANIFEST.json', 'w'), indent=1)
