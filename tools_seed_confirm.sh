#!/bin/bash
# usage: tools_seed_confirm.sh <seed dir (…/SEED/mN)> <pkg dir for demo_test.go, e.g. pkg/obiformats> <test regex>
# Confirms a Go-test demonstration: FAILS with the patch applied, PASSES without, in a scratch worktree of /repo HEAD.
SD=$(readlink -f $1); PKG=$2; RX=$3
WT=/tmp/wt-seedconfirm-$$
git -C /repo worktree add -q --detach $WT HEAD || exit 2
trap "git -C /repo worktree remove --force $WT" EXIT
cd $WT
cp $SD/demo_test.go $PKG/zz_seed_demo_test.go
go test -vet=off -count=1 -run "$RX" ./$PKG/ > /tmp/confirm-clean.log 2>&1; rc_clean=$?
git apply $SD/patch.diff || git apply -3 $SD/patch.diff || { echo "patch does not apply"; exit 3; }
go test -vet=off -count=1 -run "$RX" ./$PKG/ > /tmp/confirm-patched.log 2>&1; rc_patched=$?
echo "CONFIRM $(basename $(dirname $(dirname $SD)))/$(basename $SD): demo on clean tree rc=$rc_clean (want 0), with patch rc=$rc_patched (want !=0)"
grep -m3 -- "--- FAIL\|panic" /tmp/confirm-patched.log
