#!/usr/bin/env python3
"""prints the markdown table of the stored seeded changes of one round: tools_seed_table.py <round>"""
import json, os, sys
rnd = int(sys.argv[1]) if len(sys.argv) > 1 else 1
rows = []
for d in sorted(os.listdir('/verif/seeded')):
    mp = f'/verif/seeded/{d}/meta.json'
    if not os.path.exists(mp):
        continue
    m = json.load(open(mp))
    if int(m.get('round', 1)) != rnd:
        continue
    first = 'missed at first' if str(m.get('detection', '')).upper().startswith('MISSED') else 'caught'
    clip = lambda s, n: (s[:n]).replace('|', '/').replace('\n', ' ')
    rows.append(f"| {m['name']} | {clip(m['change'],150)} | {clip(m['needs_to_manifest'],110)} | {', '.join(m['detected_by'])} | {first} | {clip(m.get('follow_up',''),120)} |")
print('| seed | change | needs to manifest | caught by | first run | follow-up |')
print('|---|---|---|---|---|---|')
print('\n'.join(rows))
