#!/bin/bash
# Final regeneration: quick tier of every check at VERIF_SEED=1 against /repo itself (rewrites evidence/<ID>.json),
# then schema validation of MANIFEST.json and of every evidence file.  usage: tools_finalize.sh [validate-only]
cd /verif
if [ "$1" != "validate-only" ]; then
  ./tools_sweep.sh quick 1 | tee /tmp/finalize-sweep.log
  if grep -v " rc=0 " /tmp/finalize-sweep.log | grep -q .; then echo "FINALIZE: some check did not exit 0"; fi
fi
python3-vt - <<'PY'
import json, jsonschema, glob, sys
ms = json.load(open('/root/.vp/MANIFEST.schema.json'))
es = json.load(open('/root/.vp/EVIDENCE.schema.json'))
m = json.load(open('/verif/MANIFEST.json'))
jsonschema.validate(m, ms)
ids = [c['property_id'] for c in m['checks']]
bad = 0
for i in ids:
    p = f'/verif/evidence/{i}.json'
    try:
        e = json.load(open(p))
        jsonschema.validate(e, es)
        print(i, 'ok', 'tier=%s seed=%s evaluations=%s violations=%s' % (e.get('tier'), e.get('seed'), e.get('counts', {}).get('evaluations', e.get('evaluations')), e.get('violations')))
    except Exception as x:
        bad += 1
        print(i, 'INVALID', str(x)[:300])
print('manifest valid, %d checks, %d not_applicable, %d invalid evidence files' % (len(ids), len(m.get('not_applicable', [])), bad))
sys.exit(1 if bad else 0)
PY
