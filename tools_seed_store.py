#!/usr/bin/env python3
"""stores confirmed seeds of round N (default 2): tools_seed_store.py <json file> [N]; json: {"C11 m1": [change, needs, detection, follow_up, [detected_by...]], ...}>"""
import json, os, shutil, subprocess, sys
head = subprocess.check_output(['git', '-C', '/repo', 'log', '--format=%h', '-1']).decode().strip()
author = "fresh sub-agent given the property text, a scratch worktree and the hint that the verifiers use small-input randomized tests (asked for defects such tests are likely to miss)"
author4 = "fresh sub-agent given the property text, a scratch worktree and a description of what the verifiers do after three rounds (models, scale-up, multi-step histories, real I/O with OS errors, repeated options, concurrent callers, environment, byte-level shapes, boundary values, less central commands); asked for a different kind: interactions with features owned by other parts of the code, time and resource limits, legacy artefacts, numeric conversions, undefined-order sources, cleanup skipped on early returns, changed defaults"
author3 = "fresh sub-agent given the property text, a scratch worktree and a description of what the verifiers do after two rounds (small-input models, scale-up tests, two-step histories, real files and pipes, repeated options, concurrent callers); asked for what is left: less central entry points, seldom varied environment, state across more than two steps, numeric edge values, error paths"
S = json.load(open(sys.argv[1]))
RND = int(sys.argv[2]) if len(sys.argv) > 2 else 2
for key, (chg, needs, det, fu, by) in S.items():
    P, M = key.split()
    src = f'/tmp/seed{RND}-{P}/SEED/{M}'
    dst = f'/verif/seeded/{P}-r{RND}{M}'
    os.makedirs(dst, exist_ok=True)
    for f in os.listdir(src):
        fp = os.path.join(src, f)
        if os.path.isfile(fp) and os.path.getsize(fp) < 400_000:
            shutil.copy(fp, dst)  # patch, README, demonstration and its small data files
        elif os.path.isdir(fp) and sum(os.path.getsize(os.path.join(r, x)) for r, _, fs in os.walk(fp) for x in fs) < 1_000_000:
            shutil.copytree(fp, os.path.join(dst, f), dirs_exist_ok=True)
    gen = os.path.join(os.path.dirname(src), 'gen_data.py')
    if os.path.isfile(gen):
        shutil.copy(gen, dst)
    meta = {"property": P, "name": f"{P}-r{RND}{M}", "round": RND, "author": (author4 if RND == 4 else author3 if RND == 3 else author), "change": chg, "needs_to_manifest": needs,
            "confirmed": {"repo_head": head, "applies_and_builds": True, "pinned_unit_tests_of_touched_packages_still_pass": True,
                          "demonstration_fails_with_patch_and_passes_without": True,
                          "how": "tools_seed_confirm.sh / tools_seed_confirm_sh.sh: the seed's demonstration run with and without patch.diff in a scratch worktree; tools_seed_eval.sh for build + unit tests + checks"},
            "detected_by": by, "detection": det, "tier": "quick"}
    if fu:
        meta["follow_up"] = fu
    json.dump(meta, open(dst + '/meta.json', 'w'), indent=1)
    print(dst, sorted(os.listdir(dst)))
