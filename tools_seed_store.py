#!/usr/bin/env python3
"""stores confirmed round-2 seeds: tools_seed_store.py <json file: {"C11 m1": [change, needs, detection, follow_up, [detected_by...]], ...}>"""
import json, os, shutil, subprocess, sys
head = subprocess.check_output(['git', '-C', '/repo', 'log', '--format=%h', '-1']).decode().strip()
author = "fresh sub-agent given the property text, a scratch worktree and the hint that the verifiers use small-input randomized tests (asked for defects such tests are likely to miss)"
S = json.load(open(sys.argv[1]))
for key, (chg, needs, det, fu, by) in S.items():
    P, M = key.split()
    src = f'/tmp/seed2-{P}/SEED/{M}'
    dst = f'/verif/seeded/{P}-r2{M}'
    os.makedirs(dst, exist_ok=True)
    for f in os.listdir(src):
        fp = os.path.join(src, f)
        if os.path.isfile(fp) and os.path.getsize(fp) < 300_000 and (f in ('patch.diff', 'README.md') or f.startswith('demo') or f.endswith('.py')):
            shutil.copy(fp, dst)
    meta = {"property": P, "name": f"{P}-r2{M}", "round": 2, "author": author, "change": chg, "needs_to_manifest": needs,
            "confirmed": {"repo_head": head, "applies_and_builds": True, "pinned_unit_tests_of_touched_packages_still_pass": True,
                          "demonstration_fails_with_patch_and_passes_without": True,
                          "how": "tools_seed_confirm.sh / tools_seed_confirm_sh.sh: the seed's demonstration run with and without patch.diff in a scratch worktree; tools_seed_eval.sh for build + unit tests + checks"},
            "detected_by": by, "detection": det, "tier": "quick"}
    if fu:
        meta["follow_up"] = fu
    json.dump(meta, open(dst + '/meta.json', 'w'), indent=1)
    print(dst, sorted(os.listdir(dst)))
